#!/venv/bin/python
"""Regenerate MANIFEST.json from the list of checks that exist under harness/checks/."""
import json
from pathlib import Path

V = Path(__file__).resolve().parent
props = [json.loads(l) for l in open(V / "properties.jsonl")]
def _lv(model, traces):
    return (f"TLC explores the bounded model {model} exhaustively (code-shaped transcription checked against the property clauses, "
            f"sanity configurations that must fail) and emits its states as scenarios; these are replayed on the real code and "
            f"every projected execution is validated by TLC against the clauses: {traces}. Bounded + sampled, not a proof.")


LEVEL = {
    "C01": (_lv("OsuMC (token files for 1..18 keys; column<->x lemmas as ASSUME)", "read = denotation of independently lexed tokens, "
                "written text well-formed and within 1 ms, re-read exact, second write, 3 generations"), "DESIGN.md §5 C01"),
    "C02": (_lv("SMMC (StepMania token files)", "per-kind bags, head/tail pairing, header fields, tempo positions"), "DESIGN.md §5 C02"),
    "C03": (_lv("SMMC (+ SMCalc times)", "well-formed tokens, denotation = in-memory set (exact / 1/96 beat), header kept, second generation"), "DESIGN.md §5 C03"),
    "C04": (_lv("BMSMC (five layouts, lines as a set)", "hits/holds with samples, LN pairing in time order, tempo, header retention"), "DESIGN.md §5 C04"),
    "C05": (_lv("BMSMC denotations built in memory", "line syntax, one object per hit, head/LNOBJ per hold, tempo timeline reproduced"), "DESIGN.md §5 C05"),
    "C06": (_lv("QuaMC (documents with omitted keys)", "read = denotation, schema of written documents, within 1 ms, generations"), "DESIGN.md §5 C06"),
    "C07": (_lv("O2JMC (packages, repaired sweep transcription)", "three difficulties, pairing, times by integration, header fields"), "DESIGN.md §5 C07"),
    "C08": (_lv("ConvertMC (cast with row labels after every source history)", "bags preserved, no NaN, only target fields, names, source untouched, result stable"), "DESIGN.md §5 C08"),
    "C09": ("composition of the five format specs (CrossTrace INSTANCEs them): source tokens and written target tokens are both denoted by "
            "TLC and compared as timelines at the coarser resolution, for all 16 pairs; seeded sources. Sampled, not exhaustive.", "DESIGN.md §5 C09"),
    "C10": (_lv("TempoMC (reverse sweep + un-permutation)", "integration, alignment, on-grid round trip, 1/192-beat bound, nearest fraction, beat distance"), "DESIGN.md §5 C10"),
    "C11": (_lv("ReseatMC (loop transcription)", "seven reseating clauses through three entry points"), "DESIGN.md §5 C11"),
    "C12": (_lv("StackMC (Stacker transcription with StaleStackWrite)", "write-through relation per assignment, shape kept"), "DESIGN.md §5 C12"),
    "C13": (_lv("RateMC (exact rationals)", "scaled, meta scaled, untouched, identity, composition, write/read"), "DESIGN.md §5 C13"),
    "C14": (_lv("FrameMC (heap/alias) + ListsMC histories", "full projection of every input equal before/after each of 37 map-level and all list operations; documented copies poked"), "DESIGN.md §5 C14"),
    "C15": (_lv("PermMC (all permutations, both label forms)", "results on permuted charts equivalent as bags for write x4, converters, rate, full_ln, hitsound_copy, analyses"), "DESIGN.md §5 C15"),
    "C16": (_lv("ListsMC (history machine + laws)", "plain-sequence semantics of every list operation on all 34 list classes, declared fields"), "DESIGN.md §5 C16"),
    "C17": (_lv("FullLNMC (sweep transcription)", "notes kept, per-column rule with order search, no overlap, other lists unchanged"), "DESIGN.md §5 C17"),
    "C18": (_lv("HitsoundMC (slot machine)", "six hitsound clauses + inputs unchanged"), "DESIGN.md §5 C18"),
    "C19": (_lv("SpeedMC (pandas-shaped step function)", "dominant set, scroll speed at every breakpoint, normalisation"), "DESIGN.md §5 C19"),
    "C20": (_lv("PatternMC (is_grouped loop)", "grouping clauses, combinations none missing / none extra under set-theoretic filter expansion"), "DESIGN.md §5 C20"),
}
TECH = "TLA+ spec checked with TLC + TLC trace validation of real-code executions (spec->code scenarios, code->spec traces)"
checks, na = [], []
for p in props:
    pid = p["id"]
    if (V / "harness" / "checks" / f"{pid.lower()}.py").exists():
        text, ref = LEVEL.get(pid, ("bounded TLC model + TLC-validated traces of the real code", "DESIGN.md §5 " + pid))
        checks.append({
            "property_id": pid,
            "quick_cmd": f"/venv/bin/python run_check.py {pid} quick",
            "thorough_cmd": f"/venv/bin/python run_check.py {pid} thorough",
            "evidence_file": f"/verif/evidence/{pid}.json",
            "replay_cmd_template": "/venv/bin/python replay.py {path}",
            "engine": "tlc",
            "level_claimed": {"category": "model_checking", "text": text, "design_ref": ref},
            "level_note": "bounded model (constants in spec/*.cfg); beyond the bounds seeded sampling; trusted: TLC, "
                          "CommunityModules Json/IOUtils, the harness lexers/projection, tick quantisation (1 us)",
            "technique": TECH,
        })
    else:
        na.append({"property_id": pid, "reason": "check not built yet in this round (spec module pending); see DESIGN.md §11"})
m = {
    "version": 1,
    "setup_cmd": "/venv/bin/python setup_check.py",
    "hooks": {
        "guard": "REAMBERPY_VERIF",
        "enable": "no source hooks in /repo: the library is sequential and every abstract state is observable through its "
                  "public API; checks import reamber from VERIF_REPO (default /repo) at run time. REAMBERPY_VERIF=1 switches on "
                  "the harness-side pytest plugin harness/recorder.py (PYTHONPATH=/verif, -p harness.recorder), which wraps the "
                  "timed-list operations while the repository's own tests run and logs trace records to REAMBERPY_VERIF_TRACE",
        "baseline_off_cmd": "cd /repo && /venv/bin/python -m pytest -ra -q -p no:cacheprovider --timeout=900 "
                            "--continue-on-collection-errors",
        "source_commits": [],
        "add_only": True,
    },
    "engines": [{"name": "tlc", "path": "/verif/spec", "serves_properties": [c["property_id"] for c in checks],
                 "kind_free_text": "explicit TLA+ specification, TLC model checking and TLC trace validation"}],
    "checks": checks,
    "not_applicable": na,
    "notes": "run_check.py <id> <tier>; exit 2 = machinery failure (no verdict). known_findings.json lists recorded defects.",
}
(V / "MANIFEST.json").write_text(json.dumps(m, indent=1) + "\n")
print(len(checks), "checks;", len(na), "not yet claimed")
