#!/venv/bin/python
"""Regenerate MANIFEST.json from the list of checks that exist under harness/checks/."""
import json
from pathlib import Path

V = Path(__file__).resolve().parent
props = [json.loads(l) for l in open(V / "properties.jsonl")]
LEVEL = {
    "C10": ("TLC explores every tempo list/query tuple of the bounded model and checks that the code-shaped reverse "
            "sweep refines piecewise-linear integration; every explored tempo list is replayed on the real TimingMap "
            "and each call's projected result is validated by TLC against the Ref clauses (integration, index "
            "alignment, on-grid round trip, 1/192-beat bound, nearest-fraction, beat distance).", "DESIGN.md §5 C10"),
}
TECH = "TLA+ spec checked with TLC + TLC trace validation of real-code executions (spec->code scenarios, code->spec traces)"
checks, na = [], []
for p in props:
    pid = p["id"]
    if (V / "harness" / "checks" / f"{pid.lower()}.py").exists():
        text, ref = LEVEL.get(pid, ("bounded TLC model + TLC-validated traces of the real code", "DESIGN.md §5 " + pid))
        checks.append({
            "property_id": pid,
            "quick_cmd": f"/venv/bin/python run_check.py {pid} quick",
            "thorough_cmd": f"/venv/bin/python run_check.py {pid} thorough",
            "evidence_file": f"/verif/evidence/{pid}.json",
            "replay_cmd_template": "/venv/bin/python replay.py {path}",
            "engine": "tlc",
            "level_claimed": {"category": "model_checking", "text": text, "design_ref": ref},
            "level_note": "bounded model (constants in spec/*.cfg); beyond the bounds seeded sampling; trusted: TLC, "
                          "CommunityModules Json/IOUtils, the harness lexers/projection, tick quantisation (1 us)",
            "technique": TECH,
        })
    else:
        na.append({"property_id": pid, "reason": "check not built yet in this round (spec module pending); see DESIGN.md §11"})
m = {
    "version": 1,
    "setup_cmd": "/venv/bin/python setup_check.py",
    "hooks": {
        "guard": "REAMBERPY_VERIF",
        "enable": "no source hooks: the library is sequential and every abstract state is observable through its "
                  "public API; checks import reamber from VERIF_REPO (default /repo) at run time",
        "baseline_off_cmd": "cd /repo && /venv/bin/python -m pytest -ra -q -p no:cacheprovider --timeout=900 "
                            "--continue-on-collection-errors",
        "source_commits": [],
        "add_only": True,
    },
    "engines": [{"name": "tlc", "path": "/verif/spec", "serves_properties": [c["property_id"] for c in checks],
                 "kind_free_text": "explicit TLA+ specification, TLC model checking and TLC trace validation"}],
    "checks": checks,
    "not_applicable": na,
    "notes": "run_check.py <id> <tier>; exit 2 = machinery failure (no verdict). known_findings.json lists recorded defects.",
}
(V / "MANIFEST.json").write_text(json.dumps(m, indent=1) + "\n")
print(len(checks), "checks;", len(na), "not yet claimed")
