#!/venv/bin/python
"""Entry point of every registered check:  run_check.py <Cxx> <quick|thorough>

exit 0  the property held on everything explored (known findings are printed)
exit 1  at least one VIOLATION line was printed
exit 2  the machinery failed (TLC error, timeout, harness exception) - no verdict
"""
import importlib
import os
import sys
import traceback
from pathlib import Path

sys.path.insert(0, str(Path(__file__).resolve().parent))
os.environ.setdefault("PYTHONHASHSEED", "0")


def main():
    if len(sys.argv) < 2:
        print(__doc__)
        return 2
    pid = sys.argv[1].upper()
    tier = (sys.argv[2] if len(sys.argv) > 2 else os.environ.get("VERIF_TIER", "quick")).lower()
    if tier not in ("quick", "thorough"):
        tier = "quick"
    from harness.common import use_repo
    from harness.tlc import MachineryError
    use_repo()
    try:
        mod = importlib.import_module(f"harness.checks.{pid.lower()}")
        return mod.run(tier)
    except MachineryError as e:
        print(f"MACHINERY-FAILURE property={pid}: {e}", file=sys.stderr)
        return 2
    except Exception:
        traceback.print_exc()
        print(f"MACHINERY-FAILURE property={pid}", file=sys.stderr)
        return 2


if __name__ == "__main__":
    sys.exit(main())
