------------------------------ MODULE O2JTrace ------------------------------
(* Trace validator for C07. *)
EXTENDS OJNFmt, TLC, Json, IOUtils
VARIABLES l, nbad
TLog == ndJsonDeserialize(IOEnv.TRACE_FILE)

Clauses(e) ==
    IF e.exc # "" THEN [ no_exc |-> FALSE ]
    ELSE LET f == e.file IN
    [ three_difficulties |-> Len(e.charts) = 3,
      paired |-> \A d \in 1..3 : Paired(f.lvls[d]),
      hits   |-> Len(e.charts) = 3 => \A d \in 1..3 : HitsMatch(DenHits(f, f.lvls[d]), e.charts[d].hits, 4 + Len(TempoList(f, f.lvls[d])) + e.slack),
      holds  |-> Len(e.charts) = 3 => \A d \in 1..3 : HoldsMatch(DenHolds(f, f.lvls[d]), e.charts[d].holds, 4 + Len(TempoList(f, f.lvls[d])) + e.slack),
      tempo  |-> Len(e.charts) = 3 => \A d \in 1..3 : TempoMatch(f, f.lvls[d], e.charts[d].bpms, 4 + Len(TempoList(f, f.lvls[d])) + e.slack),
      header |-> /\ e.meta.title = f.title /\ e.meta.artist = f.artist /\ e.meta.creator = f.creator /\ e.meta.ojm_file = f.ojm_file
                 /\ e.meta.song_id = f.song_id /\ e.meta.genre = f.genre /\ e.meta.bpm1000 = f.bpm1000
                 /\ e.meta.level = f.level /\ e.meta.note_count = f.note_count /\ e.meta.package_count = f.package_count
                 /\ e.meta.event_count = f.event_count /\ e.meta.duration = f.duration /\ e.meta.measure_count = f.measure_count ]

Failing(e) == LET c == Clauses(e) IN { k \in DOMAIN c : ~c[k] }
Init == l = 1 /\ nbad = 0
Next == /\ l <= Len(TLog)
        /\ LET f == Failing(TLog[l]) IN
             /\ (f # {} => PrintT(ToJson([id |-> TLog[l].id, failing |-> f])))
             /\ nbad' = nbad + (IF f = {} THEN 0 ELSE 1)
        /\ l' = l + 1
Spec == Init /\ [][Next]_<<l, nbad>>
Done == (l = Len(TLog) + 1) => PrintT(ToJson([done |-> l - 1, bad |-> nbad]))
=============================================================================
