SPECIFICATION Spec
CONSTRAINT Done
