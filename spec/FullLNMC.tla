------------------------------ MODULE FullLNMC ------------------------------
(***************************************************************************)
(* Every small chart x gap x threshold; FullLNImpl transcribes the code:   *)
(* stack hits+holds, sort by time (any order among ties), group by column, *)
(* diff to the next row, one output per row.  Invariant: the transcription *)
(* satisfies every clause of the property.  Each scenario is emitted.      *)
(***************************************************************************)
EXTENDS FullLN, TLC, Json

CONSTANTS MaxNotes, Times, NCols, Lens, Gaps, Thrs, Emit
VARIABLES notes, gap, thr, done
vars == <<notes, gap, thr, done>>

Kinds == { [k |-> "hit", n |-> 0] } \cup { [k |-> "hold", n |-> n] : n \in Lens }
Init == notes = <<>> /\ gap \in Gaps /\ thr \in Thrs /\ done = FALSE

(* notes are added in a canonical (non-decreasing) order so that each multiset is built once *)
Key(x) == x.t * 1000 + x.c * 100 + x.n * 2 + (IF x.k = "hold" THEN 1 ELSE 0)
Add == /\ ~done /\ Len(notes) < MaxNotes
       /\ \E t \in Times, c \in 0..NCols-1, kd \in Kinds :
            LET x == [t |-> t, c |-> c, n |-> kd.n, k |-> kd.k] IN
            /\ (IF notes = <<>> THEN TRUE ELSE Key(notes[Len(notes)]) <= Key(x))
            /\ notes' = Append(notes, x)
       /\ UNCHANGED <<gap, thr, done>>
Finish == ~done /\ Len(notes) >= 1 /\ done' = TRUE /\ UNCHANGED <<notes, gap, thr>>
Next == Add \/ Finish
Spec == Init /\ [][Next]_vars

(* the transcription: one admissible global time order, then per-column sweep *)
ImplOutputs ==
    { out \in UNION { { o } : o \in
        { [i \in DOMAIN notes |->
             LET c == notes[p[i]].c
                 later == { j \in DOMAIN notes : j > i /\ notes[p[j]].c = c }
             IN IF later = {} THEN notes[p[i]]
                ELSE Out(notes[p[i]], notes[p[CHOOSE j \in later : \A q \in later : j <= q]], gap, thr)]
          : p \in Orders(notes, DOMAIN notes) } } : TRUE }

ImplSatisfiesRef == done => \A out \in ImplOutputs :
    LET cl == FullLNClauses(notes, out, gap, thr) IN \A k \in DOMAIN cl : cl[k]

EmitScn == (Emit /\ done) => PrintT(ToJson([kind |-> "fullln", notes |-> notes, gap |-> gap, thr |-> thr]))
=============================================================================
