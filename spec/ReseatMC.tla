------------------------------ MODULE ReseatMC ------------------------------
(***************************************************************************)
(* Code-shaped transcription of reseat_bpm_changes_snap, one loop          *)
(* iteration per step, over every small input built by AddChange.          *)
(* Each working element is [m, ml (measure length, ticks), met].  The      *)
(* two "extend" branches (remainder <= 1/1000 measure or beat) are         *)
(* modelled as the named deviation ExtendBranch: on the grids of this      *)
(* model they are unreachable, which TLC confirms (action never enabled).  *)
(* Invariant: at pc = "done" the result satisfies ReseatRef.               *)
(***************************************************************************)
EXTENDS Reseat, TLC, Json, SequencesExt

CONSTANTS G, BLs, Mets, MaxC, MaxM, Emit

VARIABLES inp, pc, bcs, offs, i, measure
vars == <<inp, pc, bcs, offs, i, measure>>

Init == /\ \E bl \in BLs, met \in Mets : inp = << [m |-> 0, b |-> 0, bl |-> bl, met |-> met] >>
        /\ pc = "build" /\ bcs = <<>> /\ offs = <<>> /\ i = 0 /\ measure = 0

LastC == inp[Len(inp)]

AddChange ==
    /\ pc = "build" /\ Len(inp) < MaxC
    /\ \E bl \in BLs, met \in Mets, m \in LastC.m..MaxM, b \in 0..(LastC.met * G - 1) :
          LET c == [m |-> m, b |-> b, bl |-> bl, met |-> met]
              ntl == Append(inp, c)
          IN /\ SnapLt(LastC.m, LastC.b, m, b) /\ b < met * G
             /\ (Seated(ntl) \/ ConstMet(ntl))
             /\ inp' = ntl
    /\ UNCHANGED <<pc, bcs, offs, i, measure>>

(* bcs_s = deepcopy(sorted); offsets = prefix sums of (snap diff).offset(bcs_0) *)
Start ==
    /\ pc = "build" /\ Len(inp) >= 2
    /\ bcs' = [k \in DOMAIN inp |-> [m |-> inp[k].m, ml |-> inp[k].bl * inp[k].met, met |-> inp[k].met, seat |-> inp[k].b = 0]]
    /\ offs' = [k \in DOMAIN inp |-> StartTicks(inp, G, 0, k)]
    /\ i' = 1 /\ measure' = 0 /\ pc' = "loop"
    /\ UNCHANGED inp

SetSeat(s, k, m) == [s EXCEPT ![k] = [@ EXCEPT !.m = m, !.seat = TRUE]]

Iterate ==
    /\ pc = "loop" /\ i # Len(bcs)
    /\ LET b0 == bcs[i]
           d == offs[i+1] - offs[i]
           quo == d \div b0.ml
           rem == d % b0.ml
           meas == measure + quo
           nb == [m |-> meas, ml |-> rem, met |-> b0.met, seat |-> TRUE]
           noff == quo * b0.ml + offs[i]
       IN  /\ ~(rem > 0 /\ rem * 1000 <= b0.ml)      \* not the extend case
           /\ IF rem = 0
              THEN /\ bcs' = SetSeat(bcs, i+1, meas) /\ offs' = offs /\ measure' = meas
              ELSE IF quo = 0
                   THEN /\ bcs' = SetSeat([bcs EXCEPT ![i] = nb], i+1, meas + 1)
                        /\ offs' = [offs EXCEPT ![i] = noff] /\ measure' = meas + 1
                   ELSE /\ bcs' = SetSeat(InsertAt(bcs, i+1, nb), i+1, meas)
                        /\ offs' = InsertAt(offs, i+1, noff) /\ measure' = meas
    /\ i' = i + 1
    /\ UNCHANGED <<inp, pc>>

(* named deviation: the branches that nudge the previous bpm / change the metronome *)
ExtendBranch ==
    /\ pc = "loop" /\ i # Len(bcs)
    /\ LET d == offs[i+1] - offs[i]  rem == d % bcs[i].ml IN rem > 0 /\ rem * 1000 <= bcs[i].ml
    /\ pc' = "extend"
    /\ UNCHANGED <<inp, bcs, offs, i, measure>>

Finish == /\ pc = "loop" /\ i = Len(bcs) /\ pc' = "done"
          /\ UNCHANGED <<inp, bcs, offs, i, measure>>

Next == AddChange \/ Start \/ Iterate \/ ExtendBranch \/ Finish
Spec == Init /\ [][Next]_vars

Out == [k \in DOMAIN bcs |-> [m |-> bcs[k].m, bn |-> IF bcs[k].seat THEN 0 ELSE 1, bd |-> 1,
                              bl |-> bcs[k].ml \div bcs[k].met, met |-> bcs[k].met]]

ExactBl == pc = "done" => \A k \in DOMAIN bcs : bcs[k].ml % bcs[k].met = 0
Refines == pc = "done" => ReseatRef(inp, G, Out, [j \in DOMAIN Out |-> OutStart(Out, j)], 0)
NoExtend == pc # "extend"
(* the impl's own `offsets` bookkeeping agrees with integrating its output *)
OffsConsistent == pc = "done" => \A j \in DOMAIN Out : OutStart(Out, j) = offs[j]

BuildOnly == pc = "build"
EmitScn == (Emit /\ pc = "build" /\ Len(inp) >= 2) =>
              PrintT(ToJson([kind |-> "in", G |-> G, tl |-> inp]))
=============================================================================
