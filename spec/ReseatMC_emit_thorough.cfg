SPECIFICATION Spec
CONSTANTS
  G = 2
  BLs = {480000, 240000, 600000}
  Mets = {3, 4}
  MaxC = 4
  MaxM = 3
  Emit = TRUE
CONSTRAINT EmitScn
CONSTRAINT BuildOnly
