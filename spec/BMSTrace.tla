------------------------------ MODULE BMSTrace ------------------------------
(* Trace validator for C04 (read) and C05 (write). *)
EXTENDS BMSFmt, TLC, Json, IOUtils
VARIABLES l, nbad
TLog == ndJsonDeserialize(IOEnv.TRACE_FILE)
SeqSet(s) == { s[i] : i \in DOMAIN s }
HdrVal(f, k) == LET S == { i \in DOMAIN f.hdr : f.hdr[i].key = k } IN IF S = {} THEN "<none>" ELSE f.hdr[CHOOSE i \in S : TRUE].val

ReadClauses(e) ==
    LET f == e.file  lay == Layout(e.layout)
        ntl == Len(TempoList(f))
        \* e.slack: half a tick per beat of the prefix when the file's bpm is not a whole number of ticks per beat (bundled maps)
        tol(d) == 4 + ntl + e.slack IN
    [ ln_paired |-> Paired(f, lay),
      hits  |-> NotesMatch(DenHits(f, lay), e.chart.hits, tol, TRUE),
      holds |-> HoldsMatch(DenHolds(f, lay), e.chart.holds, tol, TRUE),
      tempo_present |-> TempoPresent(f, e.chart.bpms, 4 + ntl + e.slack),
      header |-> /\ e.chart.title = HdrVal(f, "TITLE") /\ e.chart.artist = HdrVal(f, "ARTIST")
                 /\ e.chart.version = HdrVal(f, "PLAYLEVEL")
                 /\ \A i \in DOMAIN f.exbpm : \E j \in DOMAIN e.chart.exbpms :
                        e.chart.exbpms[j].id = f.exbpm[i].id /\ e.chart.exbpms[j].bpm1000 = f.exbpm[i].bpm1000
                 /\ \A i \in DOMAIN f.hdr :
                        (f.hdr[i].val # "" /\ f.hdr[i].key \notin {"TITLE", "ARTIST", "PLAYLEVEL", "BPM", "LNOBJ"} /\ SubSeq(f.hdr[i].key, 1, 3) \notin {"WAV", "BPM"})
                          => \E j \in DOMAIN e.chart.misc : e.chart.misc[j][1] = f.hdr[i].key /\ e.chart.misc[j][2] = f.hdr[i].val ]

(* C05: the written bytes denote the chart: positions compared in time through the FILE's own tempo  *)
(* list, which must itself reproduce the in-memory tempo timeline                                    *)
WriteClauses(e) ==
    LET f == e.file  lay == Layout(e.layout)
        tl == TempoList(f)
        ntl == Len(tl)
        st == Starts(tl, 0)
        dhits == DenHits(f, lay)
        dholds == DenHolds(f, lay)
        tol(d) == IF e.on_grid THEN 6 + ntl ELSE d.bl \div 192 + 6 + ntl IN
    [ syntax |-> f.junk = 0 /\ f.bad_lines = 0,
      ln_paired |-> Paired(f, lay),
      hits  |-> NotesMatch(dhits, e.chart.hits, tol, FALSE),
      holds |-> HoldsMatch(dholds, e.chart.holds, tol, FALSE),
      tempo |-> /\ Len(tl) = Len(e.chart.bpms)
                /\ \A k \in DOMAIN tl : \E j \in DOMAIN e.chart.bpms :
                      Abs(e.chart.bpms[j].t - st[k]) <= 6 + Len(tl) /\ Abs(e.chart.bpms[j].bl - tl[k].bl) <= 2,
      (* an object whose in-memory sample is in the #WAV table is written with that sample's id *)
      known_samples |-> LET known == { f.wavs[i].file : i \in DOMAIN f.wavs } IN
                        /\ \A i \in DOMAIN e.chart.hits : e.chart.hits[i].sample \in known =>
                              \E d \in dhits : d.c = e.chart.hits[i].c /\ Abs(d.t - e.chart.hits[i].t) <= tol(d)
                                                          /\ d.sample = e.chart.hits[i].sample
                        /\ \A j \in DOMAIN e.chart.holds : e.chart.holds[j].sample \in known =>
                              \E d \in dholds : d.c = e.chart.holds[j].c /\ Abs(d.t - e.chart.holds[j].t) <= tol(d)
                                                           /\ d.sample = e.chart.holds[j].sample ]

Clauses(e) ==
    IF e.exc # "" THEN [ no_exc |-> FALSE ]
    ELSE CASE e.op = "read" -> ReadClauses(e)
           [] e.op = "write" -> WriteClauses(e)

Failing(e) == LET c == Clauses(e) IN { k \in DOMAIN c : ~c[k] }
Init == l = 1 /\ nbad = 0
Next == /\ l <= Len(TLog)
        /\ LET f == Failing(TLog[l]) IN
             /\ (f # {} => PrintT(ToJson([id |-> TLog[l].id, failing |-> f])))
             /\ nbad' = nbad + (IF f = {} THEN 0 ELSE 1)
        /\ l' = l + 1
Spec == Init /\ [][Next]_<<l, nbad>>
Done == (l = Len(TLog) + 1) => PrintT(ToJson([done |-> l - 1, bad |-> nbad]))
=============================================================================
