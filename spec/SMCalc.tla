------------------------------- MODULE SMCalc -------------------------------
(* The SM timing denotation as a service: for each abstract scenario of the input file (rows per      *)
(* measure, objects by linear row index, tempo list) print the times the spec assigns, so that the    *)
(* harness can build the same chart in memory for the writer (C03, C09).                              *)
EXTENDS SMFmt, TLC, Json, IOUtils
VARIABLES l
TLog == ndJsonDeserialize(IOEnv.TRACE_FILE)

RECURSIVE Locate(_, _, _)
(* linear row index i (0-based) -> [m, r, n] *)
Locate(rows, i, m) == IF i < rows[m] THEN [m |-> m, r |-> i + 1, n |-> rows[m]] ELSE Locate(rows, i - rows[m], m + 1)
Times(e) ==
    LET b == [k \in DOMAIN e.bpms |-> [p |-> e.bpms[k].p48 * 100, bl |-> e.bpms[k].bl]]
        T(i) == LET x == Locate(e.rows, i, 1) IN RowTicks(b, e.off, x.m - 1, x.r - 1, x.n)
    IN  [id |-> e.id, times |-> [q \in DOMAIN e.objs |-> [h |-> T(e.objs[q].i), t |-> T(e.objs[q].j)]],
         starts |-> [k \in DOMAIN b |-> TStart(b, e.off, k)]]
Init == l = 1
Next == l <= Len(TLog) /\ PrintT(ToJson(Times(TLog[l]))) /\ l' = l + 1
Spec == Init /\ [][Next]_l
Done == (l = Len(TLog) + 1) => PrintT(ToJson([done |-> l - 1, bad |-> 0]))
=============================================================================
