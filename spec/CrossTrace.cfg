SPECIFICATION Spec
CONSTRAINT Done
