------------------------------- MODULE QuaFmt -------------------------------
(***************************************************************************)
(* C06: what a .qua document denotes and what a written document must      *)
(* look like.  The YAML text layer is parsed by PyYAML (trusted) into a     *)
(* type-tagged tree; this module interprets the tree.                       *)
(*                                                                         *)
(* A scalar is [tag, num, str]; tag in {"int","float","str","bool","null",  *)
(* "nan","list","map","absent"}; num = value x1000 (x100 for Bpm, x10000    *)
(* for Multiplier), for a list its length.                                  *)
(* doc.objs  : seq of [keys, st, lane, end, ks]     (HitObjects)            *)
(* doc.tps   : seq of [keys, st, bpm]               (TimingPoints)          *)
(* doc.svs   : seq of [keys, st, mult]              (SliderVelocities)      *)
(* doc.meta  : record  field -> scalar ; doc.top : set of top-level keys    *)
(* chart     : hits [t,c,ks], holds [t,c,n,ks], bpms [t,bpm], svs [t,m], meta *)
(***************************************************************************)
EXTENDS Integers, Sequences, FiniteSets

Abs(x) == IF x < 0 THEN -x ELSE x
SeqSet(s) == { s[i] : i \in DOMAIN s }
Numeric(v) == v.tag \in {"int", "float"}
(* value of a numeric key with the format's default when omitted *)
Val(v, default) == IF v.tag = "absent" THEN default ELSE v.num

IsHold(o) == o.end.tag # "absent"
RECURSIVE Pick(_, _, _)
Pick(s, P(_), i) == IF i > Len(s) THEN <<>> ELSE (IF P(s[i]) THEN <<s[i]>> ELSE <<>>) \o Pick(s, P, i + 1)

DenHits(doc)  == LET P(o) == ~IsHold(o) IN
                 LET h == Pick(doc.objs, P, 1) IN
                 [i \in DOMAIN h |-> [t |-> Val(h[i].st, 0), c |-> Val(h[i].lane, 1000) \div 1000 - 1,
                                      ks |-> IF h[i].ks.tag = "list" THEN h[i].ks.num ELSE 0]]
DenHolds(doc) == LET P(o) == IsHold(o) IN
                 LET h == Pick(doc.objs, P, 1) IN
                 [i \in DOMAIN h |-> [t |-> Val(h[i].st, 0), c |-> Val(h[i].lane, 1000) \div 1000 - 1,
                                      n |-> h[i].end.num - Val(h[i].st, 0),
                                      ks |-> IF h[i].ks.tag = "list" THEN h[i].ks.num ELSE 0]]
DenBpms(doc)  == [i \in DOMAIN doc.tps |-> [t |-> Val(doc.tps[i].st, 0), bpm |-> doc.tps[i].bpm.num]]
DenSvs(doc)   == [i \in DOMAIN doc.svs |-> [t |-> Val(doc.svs[i].st, 0), m |-> Val(doc.svs[i].mult, 10000)]]

(* sequences equal as bags up to tol on the time fields named in tf *)
RECURSIVE SortBy(_)
Lt(a, b) == a.k1 < b.k1 \/ (a.k1 = b.k1 /\ a.k2 < b.k2)
Ins(s, r) == LET k == Cardinality({ i \in DOMAIN s : Lt(s[i], r) }) IN SubSeq(s, 1, k) \o <<r>> \o SubSeq(s, k + 1, Len(s))
SortBy(s) == IF s = <<>> THEN <<>> ELSE Ins(SortBy(Tail(s)), Head(s))
Keyed(s, hasCol) == SortBy([i \in DOMAIN s |-> [k1 |-> IF hasCol THEN s[i].c ELSE 0, k2 |-> s[i].t, v |-> s[i]]])

NotesNear(a, b, tol, hold) ==
    LET x == Keyed(a, TRUE)  y == Keyed(b, TRUE) IN
    /\ Len(x) = Len(y)
    /\ \A i \in DOMAIN x : /\ Abs(x[i].v.t - y[i].v.t) <= tol /\ x[i].v.c = y[i].v.c /\ x[i].v.ks = y[i].v.ks
                           /\ (hold => Abs((x[i].v.t + x[i].v.n) - (y[i].v.t + y[i].v.n)) <= tol)
BpmsNear(a, b, tol) ==
    LET x == Keyed(a, FALSE)  y == Keyed(b, FALSE) IN
    /\ Len(x) = Len(y) /\ \A i \in DOMAIN x : Abs(x[i].v.t - y[i].v.t) <= tol /\ Abs(x[i].v.bpm - y[i].v.bpm) <= 1
SvsNear(a, b, tol) ==
    LET x == Keyed(a, FALSE)  y == Keyed(b, FALSE) IN
    /\ Len(x) = Len(y) /\ \A i \in DOMAIN x : Abs(x[i].v.t - y[i].v.t) <= tol /\ Abs(x[i].v.m - y[i].v.m) <= 1

StrFields == {"AudioFile", "BackgroundFile", "BannerFile", "Genre", "Mode", "Title", "Artist", "Source", "Creator",
              "DifficultyName", "Description"}
MetaAgrees(doc, meta) ==
    /\ \A k \in StrFields \cap DOMAIN doc.meta : doc.meta[k].tag = "str" => doc.meta[k].str = meta[k].str
    /\ ("Tags" \in DOMAIN doc.meta /\ doc.meta["Tags"].tag = "str") => doc.meta["Tags"].words = meta["Tags"].words
    /\ \A k \in {"SongPreviewTime", "MapId", "MapSetId"} \cap DOMAIN doc.meta :
          Numeric(doc.meta[k]) => Abs(doc.meta[k].num - meta[k].num) <= 1000
    \* a key the document omits has the declared default of its own field (x1000 for the numeric ones)
    /\ \A k \in {"MapId", "MapSetId"} \ DOMAIN doc.meta : meta[k].num = 0 - 1000
    /\ "SongPreviewTime" \notin DOMAIN doc.meta => meta["SongPreviewTime"].num = 0
    /\ \A k \in StrFields \ DOMAIN doc.meta : meta[k].str = (IF k = "Mode" THEN "Keys4" ELSE "")

DenotesClauses(doc, ch, tol) ==
    [ hits  |-> NotesNear(DenHits(doc), ch.hits, tol, FALSE),
      holds |-> NotesNear(DenHolds(doc), ch.holds, tol, TRUE),
      tempo |-> BpmsNear(DenBpms(doc), ch.bpms, tol),
      svs   |-> SvsNear(DenSvs(doc), ch.svs, tol),
      meta  |-> MetaAgrees(doc, ch.meta) ]

(* only the keys and value types the format defines *)
SchemaClauses(doc) ==
    [ top_keys |-> {"HitObjects", "TimingPoints", "SliderVelocities"} \subseteq SeqSet(doc.top),
      object_keys |-> \A i \in DOMAIN doc.objs : SeqSet(doc.objs[i].keys) \subseteq {"StartTime", "Lane", "EndTime", "KeySounds"},
      object_types |-> \A i \in DOMAIN doc.objs :
                         /\ doc.objs[i].st.tag \in {"int", "absent"} /\ doc.objs[i].lane.tag \in {"int", "absent"}
                         /\ doc.objs[i].end.tag \in {"int", "absent"} /\ doc.objs[i].ks.tag \in {"list", "absent"},
      tp_keys |-> \A i \in DOMAIN doc.tps : SeqSet(doc.tps[i].keys) \subseteq {"StartTime", "Bpm"},
      tp_types |-> \A i \in DOMAIN doc.tps : doc.tps[i].st.tag \in {"int", "float", "absent"} /\ Numeric(doc.tps[i].bpm),
      sv_keys |-> \A i \in DOMAIN doc.svs : SeqSet(doc.svs[i].keys) \subseteq {"StartTime", "Multiplier"},
      sv_types |-> \A i \in DOMAIN doc.svs : doc.svs[i].st.tag \in {"int", "float", "absent"}
                                            /\ doc.svs[i].mult.tag \in {"int", "float", "absent"},
      meta_types |-> \A k \in StrFields \cap DOMAIN doc.meta : doc.meta[k].tag = "str",
      \* every lane exists in the key mode the document declares
      lanes_in_mode |-> ("Mode" \in DOMAIN doc.meta /\ doc.meta["Mode"].tag = "str") =>
                          LET km == doc.meta["Mode"].str
                              nk == IF km = "Keys4" THEN 4 ELSE IF km = "Keys7" THEN 7 ELSE IF km = "Keys8" THEN 8 ELSE 0 IN
                          \A i \in DOMAIN doc.objs : Val(doc.objs[i].lane, 1000) >= 1000 /\ Val(doc.objs[i].lane, 1000) <= nk * 1000 ]
=============================================================================
