------------------------------ MODULE Hitsound ------------------------------
(***************************************************************************)
(* C18: hitsound copy.                                                     *)
(* A note is [t, c, n, k |-> "hit"|"hold", hs |-> subset of {2,4,8} as a   *)
(* bit sum, vol, file].  A sample event is [t, file, vol].                 *)
(***************************************************************************)
EXTENDS Integers, Sequences, FiniteSets

Range(s) == { s[i] : i \in DOMAIN s }
SameBag(s1, s2) ==
    /\ Len(s1) = Len(s2)
    /\ \A r \in Range(s1) \cup Range(s2) :
          Cardinality({ i \in DOMAIN s1 : s1[i] = r }) = Cardinality({ i \in DOMAIN s2 : s2[i] = r })

Kinds == {2, 4, 8}
Has(hs, b) == (hs \div b) % 2 = 1
At(s, t) == { i \in DOMAIN s : s[i].t = t }
Count(s, t, b) == Cardinality({ i \in At(s, t) : Has(s[i].hs, b) })
Files(s, t) == { i \in At(s, t) : s[i].file # "" }
Times(s) == { s[i].t : i \in DOMAIN s }
Sounding(x) == x.hs # 0 \/ x.file # ""
Max3(a, b, c) == IF a >= b /\ a >= c THEN a ELSE IF b >= c THEN b ELSE c

Vols(src, t) == { src[i].vol : i \in At(src, t) }
(* slots the source asks for at time t: per volume group max(claps, finishes, whistles), plus one per file *)
GroupDemand(src, t, v) ==
    LET G == { i \in At(src, t) : src[i].vol = v }
        cnt(b) == Cardinality({ i \in G : Has(src[i].hs, b) })
    IN  Max3(cnt(2), cnt(4), cnt(8))
RECURSIVE SumDemand(_, _, _)
SumDemand(src, t, V) == IF V = {} THEN 0
                        ELSE LET v == CHOOSE v \in V : TRUE IN GroupDemand(src, t, v) + SumDemand(src, t, V \ {v})
Demand(src, t) == SumDemand(src, t, Vols(src, t)) + Cardinality(Files(src, t))

FileBag(s, t) == { <<i, s[i].file>> : i \in Files(s, t) }     \* tagged to keep multiplicity
NFile(s, t, f) == Cardinality({ i \in At(s, t) : s[i].file = f })

HitsoundClauses(src, tgt, out, ev) ==
    LET T == Times(src) \cup Times(tgt) \cup Times(out) \cup { ev[i].t : i \in DOMAIN ev } IN
    [ notes_kept |-> SameBag([i \in DOMAIN tgt |-> <<tgt[i].t, tgt[i].c, tgt[i].n, tgt[i].k>>],
                             [i \in DOMAIN out |-> <<out[i].t, out[i].c, out[i].n, out[i].k>>]),
      (* no more claps / finishes / whistles per time than the source had *)
      no_more_than_source |-> \A t \in T, b \in Kinds : Count(out, t, b) <= Count(src, t, b),
      (* every file and volume carried by a result note occurs in the source at that time *)
      nothing_invented |-> \A i \in DOMAIN out : Sounding(out[i]) =>
            /\ (out[i].file # "" => NFile(out, out[i].t, out[i].file) <= NFile(src, out[i].t, out[i].file))
            /\ \E j \in At(src, out[i].t) : Sounding(src[j]) /\
                   out[i].vol = (IF src[j].vol > 0 THEN src[j].vol ELSE 0),
      (* as many as the target's notes at that time can hold *)
      capacity_used |-> \A t \in T :
            IF Demand(src, t) <= Cardinality(At(tgt, t))
            THEN /\ \A b \in Kinds : Count(out, t, b) = Count(src, t, b)
                 /\ \A i \in Files(src, t) : NFile(out, t, src[i].file) = NFile(src, t, src[i].file)
            ELSE \A i \in At(out, t) : Sounding(out[i]),
      (* every named sample is on a note at that time or an event sample at that time *)
      samples_conserved |-> \A t \in T : \A i \in Files(src, t) :
            NFile(out, t, src[i].file) + Cardinality({ j \in DOMAIN ev : ev[j].t = t /\ ev[j].file = src[i].file })
               = NFile(src, t, src[i].file),
      no_stray_events |-> \A j \in DOMAIN ev : \E i \in Files(src, ev[j].t) : src[i].file = ev[j].file ]
=============================================================================
