SPECIFICATION Spec
CONSTRAINT Done
