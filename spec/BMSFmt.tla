------------------------------- MODULE BMSFmt -------------------------------
(***************************************************************************)
(* C04 / C05: what a BMS / BME / PMS text denotes for a channel layout.     *)
(* Tokens (harness/bms_text.py):                                           *)
(*   file.bpm0   beat length (ticks) of the #BPM header                    *)
(*   file.lnobj  the #LNOBJ id ("" if none)                                *)
(*   file.wavs   seq of [id, file]        file.exbpm  seq of [id, bl]      *)
(*   file.lines  seq of [m, ch, d, objs], objs = seq of [i, id, val]       *)
(*               (the non-"00" pairs of a `#mmmcc:` line with d pairs;      *)
(*                val = beat length for channel 03 / 08 pairs)              *)
(*   file.hdr    seq of [key, val] (every `#KEY value` line)               *)
(* The lines are a SET: their order in the file is irrelevant, several     *)
(* lines may share a measure and channel.  4/4 only (no channel 02).       *)
(***************************************************************************)
EXTENDS BeatTime, TLC, SequencesExt

Layout(name) ==
    CASE name = "BMS" -> [ c \in {"11","21","12","22","13","23","14","24","15","25","16","26","17","27"} |->
            CASE c = "11" -> 0 [] c = "21" -> 7 [] c = "12" -> 1 [] c = "22" -> 8 [] c = "13" -> 2 [] c = "23" -> 9
              [] c = "14" -> 3 [] c = "24" -> 10 [] c = "15" -> 4 [] c = "25" -> 11 [] c = "16" -> 5 [] c = "26" -> 12
              [] c = "17" -> 6 [] c = "27" -> 13 ]
      [] name = "BME" -> [ c \in {"16","21","11","22","12","23","13","24","14","25","15","28","18","29","19","26"} |->
            CASE c = "16" -> 0 [] c = "21" -> 8 [] c = "11" -> 1 [] c = "22" -> 9 [] c = "12" -> 2 [] c = "23" -> 10
              [] c = "13" -> 3 [] c = "24" -> 11 [] c = "14" -> 4 [] c = "25" -> 12 [] c = "15" -> 5 [] c = "28" -> 13
              [] c = "18" -> 6 [] c = "29" -> 14 [] c = "19" -> 7 [] c = "26" -> 15 ]
      [] name = "PMS" -> [ c \in {"11","12","13","14","15","22","23","24","25"} |->
            CASE c = "11" -> 0 [] c = "12" -> 1 [] c = "13" -> 2 [] c = "14" -> 3 [] c = "15" -> 4
              [] c = "22" -> 5 [] c = "23" -> 6 [] c = "24" -> 7 [] c = "25" -> 8 ]
      [] name = "PMS_BME" -> [ c \in {"11","21","12","22","13","23","14","24","15","25","18","28","19","29","16","26","17","27"} |->
            CASE c = "11" -> 0 [] c = "21" -> 9 [] c = "12" -> 1 [] c = "22" -> 10 [] c = "13" -> 2 [] c = "23" -> 11
              [] c = "14" -> 3 [] c = "24" -> 12 [] c = "15" -> 4 [] c = "25" -> 13 [] c = "18" -> 5 [] c = "28" -> 14
              [] c = "19" -> 6 [] c = "29" -> 15 [] c = "16" -> 7 [] c = "26" -> 16 [] c = "17" -> 8 [] c = "27" -> 17 ]
      [] name = "PMS_5B" -> [ c \in {"13","14","15","22","23"} |->
            CASE c = "13" -> 0 [] c = "14" -> 1 [] c = "15" -> 2 [] c = "22" -> 3 [] c = "23" -> 4 ]

(* every pair of the file as <<line, k>> *)
Pairs(f) == UNION { { <<L, k>> : k \in DOMAIN f.lines[L].objs } : L \in DOMAIN f.lines }
Ch(f, x) == f.lines[x[1]].ch
M(f, x) == f.lines[x[1]].m
D(f, x) == f.lines[x[1]].d
I(f, x) == f.lines[x[1]].objs[x[2]].i
Id(f, x) == f.lines[x[1]].objs[x[2]].id
(* position order inside the chart: measure, then i/d *)
PosLt(f, x, y) == M(f, x) < M(f, y) \/ (M(f, x) = M(f, y) /\ I(f, x) * D(f, y) < I(f, y) * D(f, x))
PosEq(f, x, y) == M(f, x) = M(f, y) /\ I(f, x) * D(f, y) = I(f, y) * D(f, x)

(* tempo list of the file: #BPM at beat 0, then the 03 / 08 events by position (an event at measure 0 *)
(* beat 0 overrides the header tempo)                                                               *)
(* EXTENSION (channel 02, outside the listed properties): f.sigs = seq of [m, f1000]: measure m is f1000/1000 of a 4/4 *)
(* measure long (only that measure).  Without such lines every measure is 4 beats and the formulas below are exact.    *)
MLen(f, m) == LET S == { k \in DOMAIN f.sigs : f.sigs[k].m = m } IN
              IF S = {} THEN 19200 ELSE (19200 * f.sigs[CHOOSE k \in S : TRUE].f1000) \div 1000
RECURSIVE MStart(_, _)
MStart(f, m) == IF f.sigs = <<>> THEN 19200 * m ELSE IF m = 0 THEN 0 ELSE MStart(f, m - 1) + MLen(f, m - 1)
TempoEvents(f) == { x \in Pairs(f) : Ch(f, x) \in {"03", "08"} }
P4800(f, x) == MStart(f, M(f, x)) + (MLen(f, M(f, x)) * I(f, x)) \div D(f, x)
(* sorted by position (TLC!SortSeq runs in Java: the CHOOSE-the-minimum recursion was cubic on long tempo lists) *)
SortTempo(f, S) ==
    LET keyed == { [p |-> P4800(f, x), bl |-> f.lines[x[1]].objs[x[2]].val, x |-> x] : x \in S }
        srt == SortSeq(SetToSeq(keyed), LAMBDA a, b : a.p < b.p \/ (a.p = b.p /\ (a.x[1] < b.x[1] \/ (a.x[1] = b.x[1] /\ a.x[2] < b.x[2]))))
    IN  [k \in DOMAIN srt |-> [p |-> srt[k].p, bl |-> srt[k].bl]]
TempoList(f) ==
    LET ev == SortTempo(f, TempoEvents(f)) IN
    IF ev # <<>> /\ ev[1].p = 0 THEN ev ELSE << [p |-> 0, bl |-> f.bpm0] >> \o ev

PairTicksTL(f, tl, x) ==
    IF f.sigs = <<>> THEN BeatToTicks(tl, 0, 4 * M(f, x) + (4 * I(f, x)) \div D(f, x), (4 * I(f, x)) % D(f, x), D(f, x))
    ELSE LET p == P4800(f, x) IN BeatToTicks(tl, 0, p \div 4800, p % 4800, 4800)
PairBlTL(f, tl, x) ==
    IF f.sigs = <<>> THEN BlAround(tl, 4 * M(f, x) + (4 * I(f, x)) \div D(f, x), (4 * I(f, x)) % D(f, x), D(f, x))
    ELSE LET p == P4800(f, x) IN BlAround(tl, p \div 4800, p % 4800, 4800)

Wav(f, id) == LET S == { i \in DOMAIN f.wavs : f.wavs[i].id = id } IN IF S = {} THEN "" ELSE f.wavs[CHOOSE i \in S : TRUE].file

(* objects of one lane (channel), in time order; an LNOBJ pair closes the preceding object of the lane *)
Lane(f, lay, col) == { x \in Pairs(f) : Ch(f, x) \in DOMAIN lay /\ lay[Ch(f, x)] = col }
RECURSIVE Ordered(_, _)
Ordered(f, S) == IF S = {} THEN <<>>
                 ELSE LET x == CHOOSE x \in S : \A y \in S : x = y \/ PosLt(f, x, y) \/ PosEq(f, x, y) IN <<x>> \o Ordered(f, S \ {x})
RECURSIVE Fold(_, _, _, _)
(* prev: the last unclosed plain object or <<>>; acc: [hits, holds, bad] *)
Fold(f, evs, prev, acc) ==
    IF evs = <<>> THEN (IF prev = <<>> THEN acc ELSE [acc EXCEPT !.hits = @ \cup {prev}])
    ELSE LET x == Head(evs) IN
         IF f.lnobj # "" /\ Id(f, x) = f.lnobj
         THEN IF prev = <<>> THEN Fold(f, Tail(evs), <<>>, [acc EXCEPT !.bad = TRUE])
              ELSE Fold(f, Tail(evs), <<>>, [acc EXCEPT !.holds = @ \cup { <<prev, x>> }])
         ELSE Fold(f, Tail(evs), x, IF prev = <<>> THEN acc ELSE [acc EXCEPT !.hits = @ \cup {prev}])
LaneObjs(f, lay, col) == Fold(f, Ordered(f, Lane(f, lay, col)), <<>>, [hits |-> {}, holds |-> {}, bad |-> FALSE])
Cols(lay) == { lay[c] : c \in DOMAIN lay }

(* the tempo list is computed once per denotation (TLC does not memoise operator applications) *)
DenHits(f, lay) ==
    LET tl == TempoList(f) IN
    UNION { { [t |-> PairTicksTL(f, tl, x), c |-> col, sample |-> Wav(f, Id(f, x)), bl |-> PairBlTL(f, tl, x)] :
              x \in LaneObjs(f, lay, col).hits } : col \in Cols(lay) }
DenHolds(f, lay) ==
    LET tl == TempoList(f) IN
    UNION { { [t |-> PairTicksTL(f, tl, p[1]), c |-> col, n |-> PairTicksTL(f, tl, p[2]) - PairTicksTL(f, tl, p[1]),
               sample |-> Wav(f, Id(f, p[1])), bl |-> Max2(PairBlTL(f, tl, p[1]), PairBlTL(f, tl, p[2]))] :
              p \in LaneObjs(f, lay, col).holds } : col \in Cols(lay) }
Paired(f, lay) == \A col \in Cols(lay) : ~LaneObjs(f, lay, col).bad

NotesMatch(D0, lst, tol(_), withSample) ==
    /\ Cardinality(D0) = Len(lst)
    /\ \A d \in D0 : \E i \in DOMAIN lst : lst[i].c = d.c /\ Abs(lst[i].t - d.t) <= tol(d) /\ (withSample => lst[i].sample = d.sample)
    /\ \A i \in DOMAIN lst : \E d \in D0 : lst[i].c = d.c /\ Abs(lst[i].t - d.t) <= tol(d) /\ (withSample => lst[i].sample = d.sample)
HoldsMatch(D0, lst, tol(_), withSample) ==
    /\ Cardinality(D0) = Len(lst)
    /\ \A d \in D0 : \E i \in DOMAIN lst : /\ lst[i].c = d.c /\ Abs(lst[i].t - d.t) <= tol(d)
                                           /\ Abs(lst[i].t + lst[i].n - d.t - d.n) <= tol(d) /\ (withSample => lst[i].sample = d.sample)
    /\ \A i \in DOMAIN lst : \E d \in D0 : /\ lst[i].c = d.c /\ Abs(lst[i].t - d.t) <= tol(d)
                                           /\ Abs(lst[i].t + lst[i].n - d.t - d.n) <= tol(d) /\ (withSample => lst[i].sample = d.sample)

(* every tempo event of the file is a tempo point of the chart at that time (values: C11 reseating) *)
TempoPresent(f, bpms, tol) ==
    LET tl == TempoList(f)
        st == Starts(tl, 0) IN
    \A k \in DOMAIN tl : \E i \in DOMAIN bpms :
        /\ Abs(bpms[i].t - st[k]) <= tol
        /\ (k = Len(tl) => Abs(bpms[i].bl - tl[k].bl) <= 1)
=============================================================================
