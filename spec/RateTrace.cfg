SPECIFICATION Spec
CONSTRAINT Done
