SPECIFICATION Spec
CONSTANTS
  Types = {"dance-single", "kb7-single"}
  RowChoices <- RowsQ
  MaxObj = 2
  MaxBpm = 2
  PosSet = {0, 3, 5, 11}
  TailGap = {1, 4}
  OffSet <- OffsQ
  BlSet = {50000, 37500}
  EmitMod = 5
  Emit = TRUE
INVARIANT DenotationTotal
INVARIANT TimesIncrease
CONSTRAINT EmitScn
