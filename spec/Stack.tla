------------------------------- MODULE Stack -------------------------------
(***************************************************************************)
(* C12: stacking writes through.                                           *)
(*                                                                         *)
(* A chart is a sequence of lists; a list is                               *)
(*    [name, cls, rows |-> Seq([v |-> [column name -> Int], x |-> Seq(STRING)])]*)
(* where v holds the stackable properties the list has (offset, column,    *)
(* length, bpm, metronome, ... scaled by 1000) and x every other field.    *)
(* `inc` is the set of list positions included in the stack, in stack      *)
(* order (chart order).  A mask is a boolean vector over the stacked rows. *)
(***************************************************************************)
EXTENDS Integers, Sequences, FiniteSets

(* the new value of column c: += c, *= c, = c, or (several columns assigned a list of values at once) the value given for c *)
F(f, v, c) == CASE f.kind = "add" -> v + f.c
                [] f.kind = "mul" -> v * f.c
                [] f.kind = "set" -> f.c
                [] f.kind = "setcols" -> f.vals[c]

RECURSIVE Base(_, _, _)
(* number of stacked rows before list L *)
Base(lists, inc, L) ==
    IF L <= 1 THEN 0
    ELSE Base(lists, inc, L - 1) + (IF (L - 1) \in inc THEN Len(lists[L - 1].rows) ELSE 0)

StackedLen(lists, inc) == Base(lists, inc, Len(lists) + 1)

(* The property: `post` is `pre` with the assignment applied to each included list on its own. *)
(* sel(L, k) says whether row k of list L is selected; cols the assigned columns.              *)
WriteThrough(pre, post, inc, cols, f, sel(_, _)) ==
    /\ Len(post) = Len(pre)
    /\ \A L \in DOMAIN pre :
         /\ post[L].name = pre[L].name /\ post[L].cls = pre[L].cls
         /\ Len(post[L].rows) = Len(pre[L].rows)
         /\ \A k \in DOMAIN pre[L].rows :
              LET a == pre[L].rows[k]  b == post[L].rows[k] IN
              /\ b.x = a.x
              /\ DOMAIN b.v = DOMAIN a.v
              /\ \A c \in DOMAIN a.v :
                    b.v[c] = IF L \in inc /\ c \in cols /\ sel(L, k) THEN F(f, a.v[c], c) ELSE a.v[c]

SetColRef(pre, post, inc, p, f) ==
    LET all(L, k) == TRUE IN WriteThrough(pre, post, inc, {p}, f, all)

LocSetRef(pre, post, inc, mask, cols, f) ==
    LET sel(L, k) == mask[Base(pre, inc, L) + k] IN
    /\ Len(mask) = StackedLen(pre, inc)
    /\ WriteThrough(pre, post, inc, cols, f, sel)
=============================================================================
