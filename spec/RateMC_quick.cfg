SPECIFICATION Spec
CONSTANTS
  Rates <- RatesQ
  Depth = 2
  Emit = TRUE
INVARIANT Composition
INVARIANT BeatInvariant
INVARIANT Identity
CONSTRAINT EmitScn
