SPECIFICATION Spec
CONSTANTS
  Layouts = {"BMS", "BME", "PMS", "PMS_BME", "PMS_5B"}
  MaxObj = 2
  MaxTempo = 1
  Ds = {1, 2, 3, 4}
  MaxM = 1
  Ids = {"01"}
  Emit = TRUE
  EmitMod = 11
INVARIANT DenotationTotal
INVARIANT StartsAgree
CONSTRAINT EmitScn
