SPECIFICATION Spec
CONSTRAINT Done
