SPECIFICATION Spec
CONSTRAINT Done
