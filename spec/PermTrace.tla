------------------------------ MODULE PermTrace ------------------------------
(* Trace validator for C15: the result on the permuted chart against the result on the original. *)
EXTENDS Perm, TLC, Json, IOUtils
VARIABLES l, nbad
TLog == ndJsonDeserialize(IOEnv.TRACE_FILE)

Clauses(e) ==
    IF e.exc # "" THEN [ no_exc |-> FALSE ]
    ELSE [ order_independent |-> Equivalent(e.base, e.perm) ]
Failing(e) == LET c == Clauses(e) IN { k \in DOMAIN c : ~c[k] }
Init == l = 1 /\ nbad = 0
Next == /\ l <= Len(TLog)
        /\ LET f == Failing(TLog[l]) IN
             /\ (f # {} => PrintT(ToJson([id |-> TLog[l].id, failing |-> f,
                                          tag |-> IF TLog[l].exc = "" THEN "" ELSE ""])))
             /\ nbad' = nbad + (IF f = {} THEN 0 ELSE 1)
        /\ l' = l + 1
Spec == Init /\ [][Next]_<<l, nbad>>
Done == (l = Len(TLog) + 1) => PrintT(ToJson([done |-> l - 1, bad |-> nbad]))
=============================================================================
