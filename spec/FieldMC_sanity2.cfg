SPECIFICATION Spec
CONSTANTS
  MaxNotes = 2
  Times = {0, 15, 40}
  Cols = {0, 1, 2}
  Lens = {0, 25}
  Cfgs <- CfgsQ
  Emit = FALSE
  NeedCover = FALSE
  NeedLead = TRUE
INVARIANT HoldsInside
CONSTRAINT EmitScn
CHECK_DEADLOCK FALSE
