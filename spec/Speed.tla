------------------------------- MODULE Speed -------------------------------
(***************************************************************************)
(* C19: dominant bpm, scroll speed, SV normalisation.                      *)
(* tps : sequence of [t, bpm]   (bpm x10, two tempo points never share t)  *)
(* svs : sequence of [t, m]     (multiplier x10000)                        *)
(* first / last : smallest / largest time of any object of the chart       *)
(*                (tempo points and SVs included).                         *)
(***************************************************************************)
EXTENDS Integers, Sequences, FiniteSets

Abs(x) == IF x < 0 THEN -x ELSE x
One == 10000

TpTimes(tps) == { tps[i].t : i \in DOMAIN tps }
(* tempo point active at time t: the last one at or before t; before the first one, the first *)
ActiveTp(tps, t) ==
    LET S == { i \in DOMAIN tps : tps[i].t <= t }
    IN  IF S = {} THEN CHOOSE i \in DOMAIN tps : \A j \in DOMAIN tps : tps[i].t <= tps[j].t
        ELSE CHOOSE i \in S : \A j \in S : tps[j].t <= tps[i].t

(* time a tempo point is active for, between the first tempo point and the last object *)
Duration(tps, last, i) ==
    LET later == { tps[j].t : j \in { j \in DOMAIN tps : tps[j].t > tps[i].t } }
        nxt == IF later = {} THEN last ELSE CHOOSE x \in later : \A y \in later : x <= y
    IN  nxt - tps[i].t
RECURSIVE SumDur(_, _, _)
SumDur(tps, last, S) == IF S = {} THEN 0
                        ELSE LET i == CHOOSE i \in S : TRUE IN Duration(tps, last, i) + SumDur(tps, last, S \ {i})
TotalActive(tps, last, b) == SumDur(tps, last, { i \in DOMAIN tps : tps[i].bpm = b })
Bpms(tps) == { tps[i].bpm : i \in DOMAIN tps }
Dominant(tps, last) == { b \in Bpms(tps) : \A c \in Bpms(tps) : TotalActive(tps, last, c) <= TotalActive(tps, last, b) }

(* multipliers that may be active at time t: an SV lasts until the next SV or tempo point;  *)
(* an SV coinciding with a tempo point wins over it; two SVs at one time: either            *)
ActiveSv(tps, svs, t) ==
    LET tp == { tps[i].t : i \in { i \in DOMAIN tps : tps[i].t <= t } }
        lastTp == IF tp = {} THEN 0 - 1000000000 ELSE CHOOSE x \in tp : \A y \in tp : y <= x
        S == { i \in DOMAIN svs : svs[i].t <= t /\ svs[i].t >= lastTp }
        top == { i \in S : \A j \in S : svs[j].t <= svs[i].t }
    IN  IF S = {} THEN {One} ELSE { svs[i].m : i \in top }

(* speed (x10000) at t for the reference bpm ref: bpm(t)/ref * sv(t), one unit of tolerance *)
SpeedOK(tps, svs, hasSv, t, ref, sp) ==
    \E m \in (IF hasSv THEN ActiveSv(tps, svs, t) ELSE {One}) :
        Abs(sp * ref - tps[ActiveTp(tps, t)].bpm * m) <= ref

ScrollClauses(tps, svs, hasSv, first, last, override, index, speed) ==
    LET refs == IF override > 0 THEN {override} ELSE Dominant(tps, last) IN
    [ breakpoints |-> (TpTimes(tps) \cup (IF hasSv THEN { svs[i].t : i \in DOMAIN svs } ELSE {}) \cup {first, last})
                         \subseteq { index[i] : i \in DOMAIN index },
      aligned |-> Len(index) = Len(speed),
      speeds  |-> Len(index) = Len(speed) =>
                    \E ref \in refs : \A i \in DOMAIN index :
                        SpeedOK(tps, svs, hasSv, index[i], ref, speed[i]) ]

NormalizeClauses(tps, last, override, out) ==
    LET refs == IF override > 0 THEN {override} ELSE Dominant(tps, last) IN
    [ one_per_tempo_point |-> /\ Len(out) = Len(tps)
                              /\ \A i \in DOMAIN tps : Cardinality({ j \in DOMAIN out : out[j].t = tps[i].t }) = 1,
      flattens |-> \E ref \in refs : \A j \in DOMAIN out :
                      \E i \in DOMAIN tps : tps[i].t = out[j].t /\ Abs(out[j].m * tps[i].bpm - ref * One) <= tps[i].bpm ]
=============================================================================
