SPECIFICATION Spec
CONSTANTS
  MaxSrc = 3
  MaxTgt = 2
  Vols0 = {10, 20}
  FilesSet = {"a", "b"}
  DropOverflowFiles = FALSE
  Emit = TRUE
INVARIANT ImplSatisfiesRef
CONSTRAINT EmitScn
