------------------------------ MODULE StackMC ------------------------------
(***************************************************************************)
(* Code-shaped model of Map.Stacker over a three-list chart                *)
(* (hits{offset,column}, holds{offset,column,length}, bpms{offset,bpm,     *)
(* metronome}):  `stacked` is the concatenated COPY with NaN for columns a *)
(* list lacks, `ixs` the slice boundaries, `_update` writes every slice    *)
(* back after each assignment.  `expect` follows the Ref semantics (the    *)
(* assignment applied to each list on its own).  A direct edit of a list   *)
(* makes a live stacker stale; writing through a stale stacker is the      *)
(* named deviation StaleStackWrite (lost update) and is excluded from the  *)
(* verdict.  Invariant: whenever the stacker is fresh, lists = expect.     *)
(***************************************************************************)
EXTENDS Stack, TLC, Json

CONSTANTS Depth, FullMasks, Emit

VARIABLES lists, expect, stacked, live, fresh, hist, lost
vars == <<lists, expect, stacked, live, fresh, hist, lost>>

NaN == 0 - 999999999
AllCols == {"offset", "column", "length", "bpm", "metronome"}

Hit(o, c)      == [v |-> [offset |-> o, column |-> c], x |-> <<>>]
Hold(o, c, n)  == [v |-> [offset |-> o, column |-> c, length |-> n], x |-> <<>>]
Bpm(o, b)      == [v |-> [offset |-> o, bpm |-> b, metronome |-> 4000], x |-> <<>>]

Chart(nh, nl, nb) ==
    << [name |-> "hits",  cls |-> "HitList",  rows |-> SubSeq(<<Hit(0, 0), Hit(500000, 1000)>>, 1, nh)],
       [name |-> "holds", cls |-> "HoldList", rows |-> SubSeq(<<Hold(250000, 2000, 500000)>>, 1, nl)],
       [name |-> "bpms",  cls |-> "BpmList",  rows |-> SubSeq(<<Bpm(0, 120000)>>, 1, nb)] >>

Init == /\ \E nh \in 0..2, nl \in 0..1, nb \in 0..1 : lists = Chart(nh, nl, nb)
        /\ expect = lists /\ stacked = <<>> /\ live = FALSE /\ fresh = FALSE
        /\ hist = <<>> /\ lost = FALSE

Inc == {1, 2, 3}
N == StackedLen(lists, Inc)
Concat(ls) == [v \in 1..3 |-> ls[v].rows]
Widen(r) == [c \in AllCols |-> IF c \in DOMAIN r.v THEN r.v[c] ELSE NaN]
StackOf(ls) == [i \in 1..StackedLen(ls, Inc) |->
                  LET L == CHOOSE L \in 1..3 : i > Base(ls, Inc, L) /\ i <= Base(ls, Inc, L) + Len(ls[L].rows)
                  IN Widen(ls[L].rows[i - Base(ls, Inc, L)])]

(* _update: every list := its slice of stacked, restricted to its own columns *)
Update(ls, st) == [L \in 1..3 |->
    [ls[L] EXCEPT !.rows = [k \in DOMAIN ls[L].rows |->
        [v |-> [c \in DOMAIN ls[L].rows[k].v |-> st[Base(ls, Inc, L) + k][c]], x |-> ls[L].rows[k].x]]]]

Apply(ls, cols, f, sel(_, _)) == [L \in 1..3 |->
    [ls[L] EXCEPT !.rows = [k \in DOMAIN ls[L].rows |->
        [ls[L].rows[k] EXCEPT !.v = [c \in DOMAIN ls[L].rows[k].v |->
            IF c \in cols /\ sel(L, k) THEN F(f, ls[L].rows[k].v[c], c) ELSE ls[L].rows[k].v[c]]]]]]

Steps == Len(hist)
Log(ev) == hist' = Append(hist, ev)

Restack == /\ Steps < Depth + 1 /\ ~(live /\ fresh)
           /\ stacked' = StackOf(lists) /\ live' = TRUE /\ fresh' = TRUE
           /\ Log([op |-> "stack"]) /\ UNCHANGED <<lists, expect, lost>>

Fs == { [kind |-> "add", c |-> 1000], [kind |-> "mul", c |-> 2] }

Write(cols, f, mask, ev) ==
    /\ live /\ Steps < Depth + 1 /\ N > 0
    /\ LET st2 == [i \in DOMAIN stacked |-> [c \in AllCols |->
                     IF c \in cols /\ mask[i] /\ stacked[i][c] # NaN THEN F(f, stacked[i][c], c) ELSE stacked[i][c]]]
           sel(L, k) == mask[Base(lists, Inc, L) + k]
       IN /\ stacked' = st2
          /\ lists' = Update(lists, st2)
          /\ IF fresh THEN /\ expect' = Apply(expect, cols, f, sel) /\ lost' = lost
             ELSE /\ expect' = Update(lists, st2) /\ lost' = TRUE      \* StaleStackWrite
    /\ fresh' = TRUE /\ live' = TRUE /\ Log(ev)

SetCol == \E p \in {"offset", "column", "length", "bpm"}, f \in Fs :
    Write({p}, f, [i \in 1..N |-> TRUE], [op |-> "set", p |-> p, f |-> f])

Masks == IF FullMasks THEN [1..N -> BOOLEAN]
         ELSE { [i \in 1..N |-> i = j] : j \in 1..N } \cup { [i \in 1..N |-> i # j] : j \in 1..N }
              \cup { [i \in 1..N |-> TRUE], [i \in 1..N |-> FALSE] }
ColSets == { {"offset"}, {"column"}, {"length"}, {"offset", "column"}, {"offset", "length", "bpm"} }

LocSet == \E m \in Masks, cs \in ColSets, f \in (IF FullMasks THEN Fs ELSE {[kind |-> "add", c |-> 1000]}) :
    Write(cs, f, m, [op |-> "loc", mask |-> m, cols |-> cs, f |-> f])

(* the user edits a list directly (not through the stacker) *)
DirectEdit == \E L \in 1..3 :
    /\ Steps < Depth + 1 /\ Len(lists[L].rows) > 0
    /\ LET one(LL, k) == LL = L /\ k = 1 IN
         /\ lists' = Apply(lists, {"offset"}, [kind |-> "add", c |-> 7000], one)
         /\ expect' = Apply(expect, {"offset"}, [kind |-> "add", c |-> 7000], one)
    /\ fresh' = FALSE /\ Log([op |-> "edit", list |-> L]) /\ UNCHANGED <<stacked, live, lost>>

Next == Restack \/ SetCol \/ LocSet \/ DirectEdit
Spec == Init /\ [][Next]_vars

WritesThrough == (live /\ fresh) => lists = expect
Shape == /\ Len(lists) = 3 /\ \A L \in 1..3 : Len(lists[L].rows) = Len(expect[L].rows)
NoLostUpdate == ~lost      \* not checked by default: TLC exhibits the stale-stacker lost update

EmitScn == (Emit /\ Steps = Depth + 1) =>
             PrintT(ToJson([kind |-> "stackhist", n |-> <<Len(lists[1].rows), Len(lists[2].rows), Len(lists[3].rows)>>,
                            hist |-> hist]))
=============================================================================
