----------------------------- MODULE SnapArith -----------------------------
(***************************************************************************)
(* EXTENSION beyond the listed properties: the position arithmetic under   *)
(* the timing engine (reamber/algorithms/timing/utils/snap.py, find_lcm).  *)
(*                                                                         *)
(* A Snap is (measure, beat, metronome).  Beats are counted in granules of *)
(* 1/G beat, the metronome in whole beats, so everything is an integer.    *)
(*                                                                         *)
(* Two levels, as everywhere in this specification:                        *)
(*   NormDoc / AddDoc / SubDoc / LtDoc : what a position means (a total    *)
(*            number of beats, written canonically, negative = error);     *)
(*   NormCode : the statement-by-statement transcription of                *)
(*            Snap.__post_init__, which agrees with NormDoc for measure>=0 *)
(*            and is known to deviate for measure < 0 (SnapMC's sanity     *)
(*            configuration shows the deviation).                          *)
(***************************************************************************)
EXTENDS Integers, Sequences, FiniteSets

CONSTANT G                      \* granules per beat

Err == [err |-> TRUE, m |-> 0, b |-> 0]
Pos(m, b) == [err |-> FALSE, m |-> m, b |-> b]

Total(m, b, met) == m * met * G + b
NormDoc(m, b, met) ==
    LET t == Total(m, b, met) IN
    IF t < 0 THEN Err ELSE Pos(t \div (met * G), t % (met * G))

(* Snap.__post_init__ *)
NormCode(m, b, met) ==
    LET ml == met * G
        b1 == IF m < 0 THEN b + m * ml ELSE b               \* if self.measure < 0: self.beat += self.measure * self.metronome
        re == b1 < 0 \/ b1 >= ml                            \* if beat < 0 or beat >= metronome:
        m2 == IF re THEN m + (b1 \div ml) ELSE m            \*     self.measure += self.beat // self.metronome
        b2 == IF re THEN b1 % ml ELSE b1                    \*     self.beat %= self.metronome
    IN  IF b2 < 0 \/ m2 < 0 THEN Err ELSE Pos(m2, b2)       \* if beat < 0 or measure < 0: raise ValueError

(* arithmetic and order of two positions (operands as the constructor left them) *)
AddDoc(x, y, met) == NormDoc(x.m + y.m, x.b + y.b, met)
SubDoc(x, y, met) == NormDoc(x.m - y.m, x.b - y.b, met)
LtDoc(x, y, met) == Total(x.m, x.b, met) < Total(y.m, y.b, met)
EqDoc(x, y, met) == Total(x.m, x.b, met) = Total(y.m, y.b, met)
(* Snap.offset(active tempo): measure_length * measure + beat_length * beat, in ticks; bl = ticks per beat *)
OffsetDoc(x, met, bl) == x.m * met * bl + (x.b * bl) \div G

----------------------------------------------------------------------------
(* find_lcm(a, threshold): statement-by-statement, as a state machine (see SnapMC).  0 stands for None. *)
RECURSIVE Gcd(_, _)
Gcd(x, y) == IF y = 0 THEN x ELSE Gcd(y, x % y)
Lcm(x, y) == (x * y) \div Gcd(x, y)
(* the same loop as a function: (a, res) after the iterations from (i, j) on; then the untouched slots are filled *)
RECURSIVE LcmRun(_, _, _, _, _)
LcmRun(a, res, i, j, th) ==
    IF i > Len(a) THEN [k \in DOMAIN res |-> IF res[k] = 0 THEN a[k] ELSE res[k]]
    ELSE LET ni == IF j < Len(a) THEN i ELSE i + 1
             nj == IF j < Len(a) THEN j + 1 ELSE 1 IN
         IF i = j \/ a[i] = 0 \/ a[j] = 0 THEN LcmRun(a, res, ni, nj, th)
         ELSE LET l == Lcm(a[i], a[j]) IN
              IF l < th THEN LcmRun([a EXCEPT ![i] = l, ![j] = 0], [res EXCEPT ![j] = l], ni, nj, th)
              ELSE LcmRun(a, res, ni, nj, th)
FindLcm(a, th) == LcmRun(a, [k \in DOMAIN a |-> 0], 1, 1, th)
=============================================================================
