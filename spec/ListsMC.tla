------------------------------ MODULE ListsMC ------------------------------
(***************************************************************************)
(* History machine for timed lists.  A list is built row by row, then a    *)
(* bounded sequence of shaping operations is applied; `cur` follows the    *)
(* plain-sequence semantics (a stable sort is one allowed outcome).  TLC   *)
(* checks algebraic laws of the Ref operators in every reachable state and *)
(* emits every history so that the driver can replay it on every list      *)
(* class of the library and probe the full operation catalogue there.      *)
(***************************************************************************)
EXTENDS Lists, TLC, Json

CONSTANTS Offs, Lens, MaxRows, Depth, Cuts, Emit

VARIABLES cur, hist, nrow
vars == <<cur, hist, nrow>>

OffsQ == {0 - 1000, 0, 500}
CutsQ == {0 - 1000, 0, 250, 500}
OffsT == {0 - 1000, 0, 500, 1000}
CutsT == {0 - 1500, 0 - 1000, 0, 250, 500, 1000, 1500}
Row(o, n, k) == [o |-> o, n |-> n, x |-> <<ToString(k)>>]

Init == cur = <<>> /\ hist = <<>> /\ nrow = 0

AddRow ==
    /\ (IF hist = <<>> THEN TRUE ELSE hist[Len(hist)].op = "row")
    /\ nrow < MaxRows
    /\ \E o \in Offs, n \in Lens :
          /\ cur' = Append(cur, Row(o, n, nrow))
          /\ hist' = Append(hist, [op |-> "row", o |-> o, n |-> n, k |-> nrow])
    /\ nrow' = nrow + 1

NOps == Cardinality({ i \in DOMAIN hist : hist[i].op # "row" })

RECURSIVE InsSorted(_, _)
InsSorted(s, r) == IF s = <<>> THEN <<r>>
                   ELSE IF r.o < s[1].o THEN <<r>> \o s ELSE <<s[1]>> \o InsSorted(Tail(s), r)
RECURSIVE StableSort(_)
StableSort(s) == IF s = <<>> THEN <<>> ELSE InsSorted(StableSort(SubSeq(s, 1, Len(s)-1)), s[Len(s)])
Reverse(s) == [i \in DOMAIN s |-> s[Len(s) + 1 - i]]
(* descending stable order as pandas gives it is irrelevant: any permutation is allowed *)

Shape(op, nc) == /\ NOps < Depth /\ cur' = nc /\ hist' = Append(hist, op) /\ UNCHANGED nrow

OpSorted == \E rev \in BOOLEAN :
    Shape([op |-> "sorted", rev |-> rev], IF rev THEN Reverse(StableSort(cur)) ELSE StableSort(cur))
OpAppend == \E o \in Offs, n \in Lens, sort \in BOOLEAN :
    /\ nrow < MaxRows + 2
    /\ NOps < Depth
    /\ LET r == Row(o, n, nrow) IN
         cur' = IF sort THEN StableSort(Append(cur, r)) ELSE Append(cur, r)
    /\ hist' = Append(hist, [op |-> "append", o |-> o, n |-> n, k |-> nrow, sort |-> sort])
    /\ nrow' = nrow + 1
OpAfter == \E t \in Cuts, inc \in BOOLEAN :
    Shape([op |-> "after", t |-> t, inc |-> inc, tail |-> FALSE], AfterRef(cur, t, inc, FALSE))
OpBefore == \E t \in Cuts, inc \in BOOLEAN :
    Shape([op |-> "before", t |-> t, inc |-> inc, head |-> TRUE], BeforeRef(cur, t, inc, TRUE))
OpSlice == \E a \in {0, 1, 0 - 1}, b \in {0 - 1, 2, 99} :
    Shape([op |-> "slice", a |-> a, b |-> b], PySlice(cur, a, b))
OpCopy == Shape([op |-> "deepcopy"], cur)

Next == AddRow \/ OpSorted \/ OpAppend \/ OpAfter \/ OpBefore \/ OpSlice \/ OpCopy
Spec == Init /\ [][Next]_vars

----------------------------------------------------------------------------
(* laws of the plain-sequence semantics, checked in every reachable state *)
PartitionLaw == \A t \in Cuts, inc \in BOOLEAN, tl \in BOOLEAN :
    /\ IsPerm(cur, AfterRef(cur, t, inc, tl) \o
                   Filter(cur, [i \in DOMAIN cur |->
                        LET v == cur[i].o + (IF tl THEN cur[i].n ELSE 0) IN IF inc THEN v < t ELSE v <= t]))
    /\ Len(AfterRef(cur, t, TRUE, tl)) >= Len(AfterRef(cur, t, FALSE, tl))
BetweenLaw == \A lo \in Cuts, hi \in Cuts : lo <= hi =>
    BetweenRef(cur, lo, hi, TRUE, FALSE, TRUE, FALSE) =
        Filter(cur, [i \in DOMAIN cur |-> cur[i].o >= lo /\ cur[i].o < hi])
SortLaw == SortedRef(cur, FALSE, StableSort(cur)) /\ SortedRef(cur, TRUE, Reverse(StableSort(cur)))
SliceLaw == \A a \in 0-4..4, b \in 0-4..4 :
    LET s == PySlice(cur, a, b) IN Len(s) <= Len(cur) /\ \A i \in DOMAIN s : s[i] \in Range(cur)

(* one history per maximal path (the driver replays every prefix step anyway) *)
Maximal == NOps = Depth \/ (Depth = 0)
EmitScn == (Emit /\ Maximal /\ hist # <<>>) => PrintT(ToJson([kind |-> "hist", hist |-> hist]))
=============================================================================
