SPECIFICATION Spec
CONSTANTS
  MaxTp = 3
  MaxSv = 3
  Times = {0, 1, 2, 3, 4}
  BpmVals = {600, 900, 1200, 2400}
  Mults = {5000, 15000, 20000}
  Emit = TRUE
INVARIANT SvImplRefinesRef
INVARIANT DominantSane
INVARIANT DurationsCover
CONSTRAINT EmitScn
