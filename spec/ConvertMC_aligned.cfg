SPECIFICATION Spec
CONSTANTS
  MaxRows = 3
  Depth = 2
  LabelAligned = TRUE
  Emit = FALSE
INVARIANT Preserved
CONSTRAINT EmitScn
