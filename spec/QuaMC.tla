------------------------------- MODULE QuaMC -------------------------------
(***************************************************************************)
(* Generator of small .qua documents: every choice of present / omitted     *)
(* StartTime, Lane, EndTime (also EndTime 0), KeySounds, Multiplier keys,   *)
(* hits only / holds only.  Invariants: the denotation assigns exactly one  *)
(* note to every object, omitted keys take the defaults, holds have the     *)
(* declared duration.                                                       *)
(***************************************************************************)
EXTENDS QuaFmt, TLC, Json

CONSTANTS MaxObj, MaxTp, MaxSv, Emit
VARIABLES objs, tps, svs, done
vars == <<objs, tps, svs, done>>

Absent == [tag |-> "absent", num |-> 0]
I(n) == [tag |-> "int", num |-> n]
Ks(n) == [tag |-> "list", num |-> n]
Init == objs = <<>> /\ tps = <<>> /\ svs = <<>> /\ done = FALSE
AddObj == /\ ~done /\ Len(objs) < MaxObj /\ tps = <<>> /\ svs = <<>>
          /\ \E st \in {Absent, I(1000000), I(0 - 500000)}, lane \in {I(1000), I(4000), I(7000)},
                en \in {Absent, I(1500000), I(0)}, ks \in {Absent, Ks(0), Ks(1)} :
               objs' = Append(objs, [st |-> st, lane |-> lane, end |-> en, ks |-> ks])
          /\ UNCHANGED <<tps, svs, done>>
AddTp == /\ ~done /\ Len(tps) < MaxTp /\ svs = <<>>
         /\ \E st \in {Absent, I(2000000)}, b \in {12000, 18050} :
              tps' = Append(tps, [st |-> st, bpm |-> [tag |-> "float", num |-> b]])
         /\ UNCHANGED <<objs, svs, done>>
AddSv == /\ ~done /\ Len(svs) < MaxSv
         /\ \E st \in {Absent, I(3000000)}, m \in {Absent, [tag |-> "float", num |-> 15000]} :
              svs' = Append(svs, [st |-> st, mult |-> m])
         /\ UNCHANGED <<objs, tps, done>>
Finish == ~done /\ done' = TRUE /\ UNCHANGED <<objs, tps, svs>>
Next == AddObj \/ AddTp \/ AddSv \/ Finish
Spec == Init /\ [][Next]_vars

Doc == [objs |-> [i \in DOMAIN objs |-> [keys |-> <<>>] @@ objs[i]], tps |-> [i \in DOMAIN tps |-> [keys |-> <<>>] @@ tps[i]],
        svs |-> [i \in DOMAIN svs |-> [keys |-> <<>>] @@ svs[i]], meta |-> [Title |-> [tag |-> "str", str |-> "t"]],
        top |-> <<"HitObjects", "TimingPoints", "SliderVelocities">>]
DenotationTotal == Len(DenHits(Doc)) + Len(DenHolds(Doc)) = Len(objs)
Defaults == /\ \A i \in DOMAIN DenHits(Doc) : DenHits(Doc)[i].c \in {0, 3, 6}
            /\ \A i \in DOMAIN DenHolds(Doc) : DenHolds(Doc)[i].t + DenHolds(Doc)[i].n \in {1500000, 0}
            /\ \A i \in DOMAIN svs : svs[i].mult.tag = "absent" => DenSvs(Doc)[i].m = 10000
            /\ \A i \in DOMAIN tps : tps[i].st.tag = "absent" => DenBpms(Doc)[i].t = 0

EmitScn == (Emit /\ done) => PrintT(ToJson([kind |-> "qua", objs |-> objs, tps |-> tps, svs |-> svs]))
=============================================================================
