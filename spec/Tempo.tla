------------------------------- MODULE Tempo -------------------------------
(***************************************************************************)
(* The timing engine of reamberPy as arithmetic on integers.               *)
(*                                                                         *)
(* Time is an integer number of TICKS (1 tick = 1 microsecond).            *)
(* Positions are integers in units of 1/G beat (G = grid of the scenario). *)
(* A tempo list `tl` is a non-empty sequence of records                    *)
(*     [m |-> measure, b |-> beat inside the measure in 1/G beats,         *)
(*      bl |-> beat length in ticks (G divides bl), met |-> beats/measure] *)
(* sorted by (m, b), first element at m = 0, b = 0.  T0 is the time of the *)
(* first change.  This is the "snap form" (BpmChangeSnap); the "offset     *)
(* form" (BpmChangeOffset) is obtained with StartTicks.                    *)
(*                                                                         *)
(* Domain (C10): either every change is on a measure line (b = 0), or the  *)
(* metronome is constant; in both cases the absolute beat of (m, b) is     *)
(* unambiguous.                                                            *)
(***************************************************************************)
EXTENDS Integers, Sequences, FiniteSets

Abs(x) == IF x < 0 THEN -x ELSE x
Max2(a, b) == IF a > b THEN a ELSE b
Min2(a, b) == IF a < b THEN a ELSE b

RECURSIVE Gcd(_, _)
Gcd(a, b) == IF b = 0 THEN Abs(a) ELSE Gcd(b, a % b)

----------------------------------------------------------------------------
(* lexicographic order of (measure, beat) pairs: Snap.__lt__ / __eq__ *)
SnapLe(m1, b1, m2, b2) == m1 < m2 \/ (m1 = m2 /\ b1 <= b2)
SnapLt(m1, b1, m2, b2) == m1 < m2 \/ (m1 = m2 /\ b1 < b2)

Seated(tl) == \A k \in DOMAIN tl : tl[k].b = 0
ConstMet(tl) == \A k \in DOMAIN tl : tl[k].met = tl[1].met
WellFormedTl(tl, G) ==
    /\ Len(tl) >= 1 /\ tl[1].m = 0 /\ tl[1].b = 0
    /\ \A k \in DOMAIN tl : tl[k].bl > 0 /\ tl[k].bl % G = 0 /\ tl[k].met >= 1
                            /\ tl[k].b >= 0 /\ tl[k].b < tl[k].met * G
    /\ \A k \in 1..Len(tl)-1 : SnapLt(tl[k].m, tl[k].b, tl[k+1].m, tl[k+1].b)
    /\ (Seated(tl) \/ ConstMet(tl))

(* the same, but a change may sit on the position of the one before it (a tempo overridden on the spot: the later *)
(* one is in force from there on); SegOfSnap / SegOfTicks already pick the last change at or before a point     *)
WellFormedTlDup(tl, G) ==
    /\ Len(tl) >= 1 /\ tl[1].m = 0 /\ tl[1].b = 0
    /\ \A k \in DOMAIN tl : tl[k].bl > 0 /\ tl[k].bl % G = 0 /\ tl[k].met >= 1
                            /\ tl[k].b >= 0 /\ tl[k].b < tl[k].met * G
    /\ \A k \in 1..Len(tl)-1 : SnapLe(tl[k].m, tl[k].b, tl[k+1].m, tl[k+1].b)
    /\ (Seated(tl) \/ ConstMet(tl))
HasDup(tl) == \E k \in 1..Len(tl)-1 : tl[k].m = tl[k+1].m /\ tl[k].b = tl[k+1].b

(* position (1/G beats, counted from the first change) of (m, b) as seen from segment k *)
RECURSIVE AbsPos(_, _, _)
AbsPos(tl, G, k) ==
    IF k = 1 THEN 0
    ELSE AbsPos(tl, G, k-1) + (tl[k].m - tl[k-1].m) * tl[k-1].met * G + tl[k].b - tl[k-1].b

(* time of change k: piecewise-linear integration of beat length *)
RECURSIVE StartTicks(_, _, _, _)
StartTicks(tl, G, T0, k) ==
    IF k = 1 THEN T0
    ELSE StartTicks(tl, G, T0, k-1)
         + (AbsPos(tl, G, k) - AbsPos(tl, G, k-1)) * (tl[k-1].bl \div G)

(* index of the segment that contains snap (m, b): last change at or before it *)
SegOfSnap(tl, m, b) ==
    LET S == { k \in DOMAIN tl : SnapLe(tl[k].m, tl[k].b, m, b) }
    IN  IF S = {} THEN 0 ELSE CHOOSE k \in S : \A j \in S : j <= k

(* C10: position -> ticks *)
PosToTicks(tl, G, T0, m, b) ==
    LET k == SegOfSnap(tl, m, b)
    IN  StartTicks(tl, G, T0, k)
        + ((m - tl[k].m) * tl[k].met * G + b - tl[k].b) * (tl[k].bl \div G)

(* index of the segment active at time t: last change at or before t *)
SegOfTicks(tl, G, T0, t) ==
    LET S == { k \in DOMAIN tl : StartTicks(tl, G, T0, k) <= t }
    IN  IF S = {} THEN 0 ELSE CHOOSE k \in S : \A j \in S : j <= k

OnGrid(tl, G, T0, t) ==
    LET k == SegOfTicks(tl, G, T0, t)
    IN  k > 0 /\ (t - StartTicks(tl, G, T0, k)) % (tl[k].bl \div G) = 0

(* C10: ticks -> position (m, b) for a time on the grid *)
TicksToPos(tl, G, T0, t) ==
    LET k == SegOfTicks(tl, G, T0, t)
        d == (t - StartTicks(tl, G, T0, k)) \div (tl[k].bl \div G)
        tot == tl[k].b + d          \* 1/G beats since the measure line of change k
    IN  [m |-> tl[k].m + tot \div (tl[k].met * G), b |-> tot % (tl[k].met * G)]

(* absolute position of a time on the grid, in 1/G beats since the first change *)
TicksToAbs(tl, G, T0, t) ==
    LET k == SegOfTicks(tl, G, T0, t)
    IN  AbsPos(tl, G, k) + (t - StartTicks(tl, G, T0, k)) \div (tl[k].bl \div G)

ActiveBl(tl, G, T0, t) == tl[Max2(1, SegOfTicks(tl, G, T0, t))].bl

----------------------------------------------------------------------------
(* Snapping of beat fractions (Snapper).  A value is the rational n/d >= 0. *)
(* "Allowed" under the two readings the code and its docstring admit:      *)
(*   declared : a/b with b one of the declared divisions                   *)
(*   triangle : a/b with b <= max(divisions)  (what Snapper builds)        *)
AllowedDeclared(divs) == { <<a, b>> : a \in 0..1, b \in {1} } \cup
                         UNION { { <<a, b>> : a \in 0..b } : b \in divs }
AllowedTriangle(divs) ==
    LET mx == CHOOSE x \in divs : \A y \in divs : y <= x
    IN  UNION { { <<a, b>> : a \in 0..b } : b \in 1..mx }

(* |n/d - a/b| compared with |n/d - a2/b2| (d cancels) *)
CloserOrEq(n, d, f1, f2) ==
    Abs(n * f1[2] - f1[1] * d) * f2[2] <= Abs(n * f2[2] - f2[1] * d) * f1[2]

NearestIn(S, n, d, f) == f \in S /\ \A g \in S : CloserOrEq(n, d, f, g)

(* the value n/d >= 0 was snapped to the fraction N/D (whole part included) *)
SnapOK(divs, n, d, N, D) ==
    LET fn == n % d
        f  == <<N - (n \div d) * D, D>>
        Same(S) == \E g \in S : g[1] * f[2] = f[1] * g[2] /\ NearestIn(S, fn, d, g)
    IN  /\ D > 0 /\ f[1] >= 0 /\ f[1] <= f[2]
        /\ (Same(AllowedDeclared(divs)) \/ Same(AllowedTriangle(divs)))
----------------------------------------------------------------------------
(* EXTENSION beyond C10's statement: the other operations of BpmList (anchored file).   *)
(* otl: tempo list in offset form, a sequence of [t, bl] sorted by t (ticks of 1 us).    *)
(* current_bpm(t): the last tempo point at or before t + 0.1 ms                          *)
CurrentIx(otl, t) == LET S == { k \in DOMAIN otl : otl[k].t <= t + 100 } IN IF S = {} THEN 0 ELSE CHOOSE k \in S : \A j \in S : j <= k
(* snap_offsets(nths, last): in every tempo section the times start + j * bl / nths before the next section *)
SnapOffsets(otl, nths, last) ==
    UNION { LET stop == IF k = Len(otl) THEN last ELSE otl[k+1].t
                step == otl[k].bl \div nths IN
            { otl[k].t + j * step : j \in 0..((stop - otl[k].t - 1) \div step) } : k \in DOMAIN otl }
(* ave_bpm(last) = sum over sections of bpm x duration / (last - first): checked as  result * total = sum(bpm_k * dur_k) *)
RECURSIVE WeightedSum(_, _, _)
WeightedSum(otl, last, k) == IF k > Len(otl) THEN 0
    ELSE otl[k].bpm100 * (((IF k = Len(otl) THEN last ELSE otl[k+1].t) - otl[k].t) \div 1000) + WeightedSum(otl, last, k + 1)
=============================================================================
