SPECIFICATION Spec
CONSTANTS
  MaxRows = 3
  Emit = TRUE
INVARIANT BagInvariant
CONSTRAINT EmitScn
