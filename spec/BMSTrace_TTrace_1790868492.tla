---- MODULE BMSTrace_TTrace_1790868492 ----
EXTENDS Sequences, TLCExt, Toolbox, BMSTrace, Naturals, TLC

_expression ==
    LET BMSTrace_TEExpression == INSTANCE BMSTrace_TEExpression
    IN BMSTrace_TEExpression!expression
----

_trace ==
    LET BMSTrace_TETrace == INSTANCE BMSTrace_TETrace
    IN BMSTrace_TETrace!trace
----

_inv ==
    ~(
        TLCGet("level") = Len(_TETrace)
        /\
        nbad = (0)
        /\
        l = (3)
    )
----

_init ==
    /\ nbad = _TETrace[1].nbad
    /\ l = _TETrace[1].l
----

_next ==
    /\ \E i,j \in DOMAIN _TETrace:
        /\ \/ /\ j = i + 1
              /\ i = TLCGet("level")
        /\ nbad  = _TETrace[i].nbad
        /\ nbad' = _TETrace[j].nbad
        /\ l  = _TETrace[i].l
        /\ l' = _TETrace[j].l

\* Uncomment the ASSUME below to write the states of the error trace
\* to the given file in Json format. Note that you can pass any tuple
\* to `JsonSerialize`. For example, a sub-sequence of _TETrace.
    \* ASSUME
    \*     LET J == INSTANCE Json
    \*         IN J!JsonSerialize("BMSTrace_TTrace_1790868492.json", _TETrace)

=============================================================================

 Note that you can extract this module `BMSTrace_TEExpression`
  to a dedicated file to reuse `expression` (the module in the 
  dedicated `BMSTrace_TEExpression.tla` file takes precedence 
  over the module `BMSTrace_TEExpression` below).

---- MODULE BMSTrace_TEExpression ----
EXTENDS Sequences, TLCExt, Toolbox, BMSTrace, Naturals, TLC

expression == 
    [
        \* To hide variables of the `BMSTrace` spec from the error trace,
        \* remove the variables below.  The trace will be written in the order
        \* of the fields of this record.
        nbad |-> nbad
        ,l |-> l
        
        \* Put additional constant-, state-, and action-level expressions here:
        \* ,_stateNumber |-> _TEPosition
        \* ,_nbadUnchanged |-> nbad = nbad'
        
        \* Format the `nbad` variable as Json value.
        \* ,_nbadJson |->
        \*     LET J == INSTANCE Json
        \*     IN J!ToJson(nbad)
        
        \* Lastly, you may build expressions over arbitrary sets of states by
        \* leveraging the _TETrace operator.  For example, this is how to
        \* count the number of times a spec variable changed up to the current
        \* state in the trace.
        \* ,_nbadModCount |->
        \*     LET F[s \in DOMAIN _TETrace] ==
        \*         IF s = 1 THEN 0
        \*         ELSE IF _TETrace[s].nbad # _TETrace[s-1].nbad
        \*             THEN 1 + F[s-1] ELSE F[s-1]
        \*     IN F[_TEPosition - 1]
    ]

=============================================================================



Parsing and semantic processing can take forever if the trace below is long.
 In this case, it is advised to uncomment the module below to deserialize the
 trace from a generated binary file.

\*
\*---- MODULE BMSTrace_TETrace ----
\*EXTENDS IOUtils, BMSTrace, TLC
\*
\*trace == IODeserialize("BMSTrace_TTrace_1790868492.bin", TRUE)
\*
\*=============================================================================
\*

---- MODULE BMSTrace_TETrace ----
EXTENDS BMSTrace, TLC

trace == 
    <<
    ([nbad |-> 0,l |-> 1]),
    ([nbad |-> 0,l |-> 2]),
    ([nbad |-> 0,l |-> 3])
    >>
----


=============================================================================

---- CONFIG BMSTrace_TTrace_1790868492 ----

INVARIANT
    _inv

CHECK_DEADLOCK
    \* CHECK_DEADLOCK off because of PROPERTY or INVARIANT above.
    FALSE

INIT
    _init

NEXT
    _next

CONSTANT
    _TETrace <- _trace

ALIAS
    _expression
=============================================================================
\* Generated on Thu Oct 01 15:28:15 UTC 2026