---------------------------- MODULE ConvertTrace ----------------------------
(* Trace validator for C08: every record is one real converter call. *)
EXTENDS Convert, TLC, Json, IOUtils

VARIABLES l, nbad
TLog == ndJsonDeserialize(IOEnv.TRACE_FILE)
SeqSet(s) == { s[i] : i \in DOMAIN s }

FieldsOK(ch) == \A i \in DOMAIN ch.fields :
    SeqSet(ch.fields[i].cols) = SeqSet(ch.fields[i].declared) /\ Len(ch.fields[i].cols) = Len(ch.fields[i].declared)

NamesOK(e, k) ==
    LET a == e.names_src[k]  b == e.names_out[k] IN
    /\ b.title = a.title /\ b.artist = a.artist
    /\ (a.creator # "" /\ e.tgt_game # "bms") => b.creator = a.creator
    /\ (a.diff # "" /\ e.tgt_game # "sm") => b.diff = a.diff

(* key count a converter infers from a chart: highest occupied column + 1 *)
KeysOf(ch) == LET S == { ch.hits[i][2] \div 1000 : i \in DOMAIN ch.hits } \cup { ch.holds[i][2] \div 1000 : i \in DOMAIN ch.holds }
              IN  IF S = {} THEN 0 ELSE (CHOOSE x \in S : \A y \in S : y <= x) + 1
Modes(game) == IF game = "sm" THEN {3, 4, 6, 7, 8} ELSE IF game = "qua" THEN {4, 7, 8} ELSE 1..18
(* a ValueError "Keys N isn't supported" is the documented answer exactly when some source chart has a key count *)
(* the target game has no mode for; raised by the four converters that infer the mode                            *)
RefusalClauses(e) ==
    [ refusal_justified |-> /\ e.conv \in {"OsuToSM", "OsuToQua", "BMSToQua", "SMToQua"}
                            /\ \E k \in DOMAIN e.src : KeysOf(e.src[k]) \notin Modes(e.tgt_game) ]

Clauses(e) ==
    IF e.exc # "" THEN [ no_exc |-> FALSE ]
    ELSE IF e.op = "refusal" THEN RefusalClauses(e)
    ELSE
    LET n == Len(e.src)
        okCount == Len(e.outs) = n /\ Len(e.names_out) = n
        P(k) == ChartPreserved(e.src[k], e.outs[k], e.shift, e.carry_sv)
    IN
    [ one_chart_per_source |-> okCount,
      hits      |-> okCount => \A k \in 1..n : P(k).hits,
      holds     |-> okCount => \A k \in 1..n : P(k).holds,
      bpms      |-> okCount => \A k \in 1..n : P(k).bpms,
      svs       |-> okCount => \A k \in 1..n : P(k).svs,
      no_missing_values |-> \A k \in DOMAIN e.outs : ~e.outs[k].nan,
      only_target_fields |-> \A k \in DOMAIN e.outs : FieldsOK(e.outs[k]),
      names     |-> okCount => \A k \in 1..n : NamesOK(e, k),
      source_untouched |-> e.src_after = e.src,
      result_stable |-> e.outs_after = e.outs ]   \* unchanged by a later, unrelated conversion

Failing(e) == LET c == Clauses(e) IN { k \in DOMAIN c : ~c[k] }
Init == l = 1 /\ nbad = 0
Next == /\ l <= Len(TLog)
        /\ LET f == Failing(TLog[l]) IN
             /\ (f # {} => PrintT(ToJson([id |-> TLog[l].id, failing |-> f])))
             /\ nbad' = nbad + (IF f = {} THEN 0 ELSE 1)
        /\ l' = l + 1
Spec == Init /\ [][Next]_<<l, nbad>>
Done == (l = Len(TLog) + 1) => PrintT(ToJson([done |-> l - 1, bad |-> nbad]))
=============================================================================
