------------------------------- MODULE Rate -------------------------------
(***************************************************************************)
(* C13: rate change.  Charts are projected as in Stack (values x1000).     *)
(* A rate is the rational rn/rd > 0.                                       *)
(*   time'  = time * rd / rn        bpm' = bpm * rn / rd                   *)
(* Comparisons are cross-multiplied; tolerance one projected unit.         *)
(***************************************************************************)
EXTENDS Integers, Sequences, FiniteSets

Abs(x) == IF x < 0 THEN -x ELSE x
TimeCols == {"offset", "length"}

(* projected values stay far inside 32 bits on charts of the modelled size; a value outside (only a wrong result can *)
(* be that large) fails the comparison instead of overflowing TLC's integers                                         *)
Safe(a, ka, b, kb) ==
    /\ Abs(a) <= 2147483647 \div ka /\ Abs(b) <= 2147483647 \div kb
    /\ ((a >= 0 /\ b >= 0) \/ (a <= 0 /\ b <= 0) \/ (Abs(a) <= 1000000000 \div ka /\ Abs(b) <= 1000000000 \div kb))
(* b = a / r within one unit *)
DivNear(a, b, rn, rd) == Safe(b, rn, a, rd) /\ Abs(b * rn - a * rd) <= rn
(* b = a * r within one unit *)
MulNear(a, b, rn, rd) == Safe(b, rd, a, rn) /\ Abs(b * rd - a * rn) <= rd

RowRated(a, b, rn, rd) ==
    /\ b.x = a.x /\ DOMAIN b.v = DOMAIN a.v
    /\ \A c \in DOMAIN a.v :
         IF c \in TimeCols THEN DivNear(a.v[c], b.v[c], rn, rd)
         ELSE IF c = "bpm" THEN MulNear(a.v[c], b.v[c], rn, rd)
         ELSE b.v[c] = a.v[c]

ListsRated(pre, post, rn, rd) ==
    /\ Len(post) = Len(pre)
    /\ \A L \in DOMAIN pre :
         /\ post[L].name = pre[L].name /\ post[L].cls = pre[L].cls
         /\ Len(post[L].rows) = Len(pre[L].rows)
         /\ \A k \in DOMAIN pre[L].rows : RowRated(pre[L].rows[k], post[L].rows[k], rn, rd)

(* file-level fields: `times` (x1000) scale with the rate, `other` (strings) stay *)
MetaRated(mp, mq, rn, rd) ==
    /\ DOMAIN mq.times = DOMAIN mp.times
    /\ \A k \in DOMAIN mp.times : DivNear(mp.times[k], mq.times[k], rn, rd)
    /\ mq.other = mp.other

(* every list of `a` within tol units of `b` (same shape) *)
ListsNear(a, b, tol) ==
    /\ Len(a) = Len(b)
    /\ \A L \in DOMAIN a :
         /\ Len(a[L].rows) = Len(b[L].rows)
         /\ \A k \in DOMAIN a[L].rows :
              /\ DOMAIN a[L].rows[k].v = DOMAIN b[L].rows[k].v
              /\ \A c \in DOMAIN a[L].rows[k].v : Abs(a[L].rows[k].v[c] - b[L].rows[k].v[c]) <= tol
              /\ a[L].rows[k].x = b[L].rows[k].x
=============================================================================
