------------------------------- MODULE PermMC -------------------------------
(***************************************************************************)
(* Every permutation of every list of a small chart (hits, holds, tempo     *)
(* points, SVs with up to MaxRows rows each), in both forms that occur:     *)
(*   "carry"  rows and row labels move together (sorted, sample)            *)
(*   "fresh"  rows move under fresh labels 0..n-1 (unsorted construction,   *)
(*            append without sort)                                          *)
(* Invariant: a permuted list is the same bag.  Each choice is emitted and  *)
(* applied to real charts.                                                  *)
(***************************************************************************)
EXTENDS Perm, TLC, Json

CONSTANTS MaxRows, Emit
VARIABLES sizes, perm, form, done
vars == <<sizes, perm, form, done>>
Lists == <<"hits", "holds", "bpms", "svs">>

Init == /\ sizes \in [1..4 -> 2..MaxRows] /\ form \in {"carry", "fresh"}
        /\ perm = <<>> /\ done = FALSE
Choose == /\ ~done /\ Len(perm) < 4
          /\ \E p \in Perms(sizes[Len(perm) + 1]) : perm' = Append(perm, p)
          /\ UNCHANGED <<sizes, form, done>>
Finish == ~done /\ Len(perm) = 4 /\ done' = TRUE /\ UNCHANGED <<sizes, perm, form>>
Next == Choose \/ Finish
Spec == Init /\ [][Next]_vars

BagInvariant == done => \A k \in 1..4 : LET s == [i \in 1..sizes[k] |-> 100 * k + i] IN SameBag(s, Apply(s, perm[k]))
NonTrivial == done => TRUE
EmitScn == (Emit /\ done /\ \E k \in 1..4 : \E i \in 1..sizes[k] : perm[k][i] # i) =>
              PrintT(ToJson([kind |-> "perm", sizes |-> sizes, perm |-> perm, form |-> form]))
=============================================================================
