------------------------------ MODULE SMTrace ------------------------------
(* Trace validator for C02 (read) and C03 (write). *)
EXTENDS SMFmt, TLC, Json, IOUtils
VARIABLES l, nbad
TLog == ndJsonDeserialize(IOEnv.TRACE_FILE)

(* the #BPMS pairs may come in any order: the denotation is that of the list sorted by beat *)
RECURSIVE SortP(_)
SortP(b) == IF b = <<>> THEN <<>>
            ELSE LET i == CHOOSE i \in DOMAIN b : \A j \in DOMAIN b : b[i].p <= b[j].p IN
                 <<b[i]>> \o SortP([k \in 1..Len(b)-1 |-> IF k < i THEN b[k] ELSE b[k+1]])
Norm(f) == [f EXCEPT !.bpms = SortP(f.bpms)]

(* C02: the reader's charts are what the tokens denote; float arithmetic: a few ticks *)
ReadClauses(e) ==
    LET f == Norm(e.file)
        \* e.slack: half a tick per beat of the prefix when a bpm is not a whole number of ticks per beat (bundled maps)
        tol(d) == 4 + Len(f.bpms) + e.slack
        n == Len(f.charts)
    IN  IF Len(e.charts) # n THEN [ chart_count |-> FALSE ]
        ELSE LET per(i) == ChartClauses(f, f.charts[i], e.charts[i], tol)
                 names == {"hits", "mines", "lifts", "fakes", "keysounds", "holds", "rolls", "header"} IN
             [ k \in names \cup {"chart_count", "tempo_present", "set_header"} |->
                 IF k = "chart_count" THEN TRUE
                 ELSE IF k = "tempo_present" THEN \A i \in 1..n : TempoPresent(f, e.charts[i], 4 + Len(f.bpms) + e.slack)
                 ELSE IF k = "set_header" THEN e.set.off = f.off /\ e.set.title = e.hdr_title /\ e.set.artist = e.hdr_artist
                 ELSE \A i \in 1..n : per(i)[k] ]

(* C03: the written tokens are well formed and denote the in-memory set *)
WriteClauses(e) ==
    LET f == Norm(e.file)
        exact == OnMeasureLines(f) /\ e.mem_on_lines
        tol(d) == IF exact THEN 4 + Len(f.bpms) ELSE d.bl \div 96 + 4 + Len(f.bpms)
        n == Len(e.charts)
        w == WellFormed(f)
    IN  IF Len(f.charts) # n THEN [ chart_count |-> FALSE ]
        ELSE LET per(i) == ChartClauses(f, f.charts[i], e.charts[i], tol)
                 names == {"hits", "mines", "lifts", "fakes", "keysounds", "holds", "rolls", "header"} IN
             [ k \in names \cup DOMAIN w \cup {"chart_count", "offset", "tempo_kept", "set_fields"} |->
                 IF k \in DOMAIN w THEN w[k]
                 ELSE IF k = "chart_count" THEN TRUE
                 ELSE IF k = "offset" THEN Abs(f.off - e.set.off) <= 1
                 ELSE IF k = "tempo_kept" THEN
                      \* the file's tempo timeline reproduces the in-memory tempo points
                      /\ Len(f.bpms) = Len(e.charts[1].bpms)
                      /\ \A j \in DOMAIN f.bpms : \E q \in DOMAIN e.charts[1].bpms :
                            Abs(e.charts[1].bpms[q].t - TStart(f.bpms, f.off, j)) <= (IF exact THEN 4 + Len(f.bpms)
                                                                                      ELSE f.bpms[Max2(1, j - 1)].bl \div 96 + 8)
                            /\ Abs(e.charts[1].bpms[q].bl - f.bpms[j].bl) <= 1
                 ELSE IF k = "set_fields" THEN
                      /\ \E j \in DOMAIN f.hdr : f.hdr[j].tag = "TITLE" /\ f.hdr[j].val = e.set.title
                      /\ \E j \in DOMAIN f.hdr : f.hdr[j].tag = "ARTIST" /\ f.hdr[j].val = e.set.artist
                      /\ \E j \in DOMAIN f.hdr : f.hdr[j].tag = "SELECTABLE" /\ f.hdr[j].val = (IF e.set.selectable THEN "YES" ELSE "NO")
                      /\ Abs(f.sample_start - e.set.sample_start) <= 1 /\ Abs(f.sample_length - e.set.sample_length) <= 1
                 ELSE \A i \in 1..n : per(i)[k] ]

(* second generation against the first when the tempo list had changes off the measure lines: the reader
   reseats them, after which the objects are no longer on the snap grid of the (nudged) tempo, so each
   write may move them by up to 1/96 beat of the slowest tempo involved *)
MaxBl(ch) == LET S == { ch.bpms[i].bl : i \in DOMAIN ch.bpms } IN CHOOSE x \in S : \A y \in S : y <= x
ListNear(a, b, tol, long) ==
    /\ Len(a) = Len(b)
    /\ \A i \in DOMAIN a : \E j \in DOMAIN b : a[i].c = b[j].c /\ Abs(a[i].t - b[j].t) <= tol
                                                 /\ (long => Abs(a[i].t + a[i].n - b[j].t - b[j].n) <= tol)
AgainNear(x, y) ==
    /\ Len(x) = Len(y)
    /\ \A i \in DOMAIN x :
         LET tol == Max2(MaxBl(x[i]), MaxBl(y[i])) \div 48 + 8 IN
         /\ ListNear(x[i].hits, y[i].hits, tol, FALSE) /\ ListNear(x[i].mines, y[i].mines, tol, FALSE)
         /\ ListNear(x[i].lifts, y[i].lifts, tol, FALSE) /\ ListNear(x[i].fakes, y[i].fakes, tol, FALSE)
         /\ ListNear(x[i].keysounds, y[i].keysounds, tol, FALSE)
         /\ ListNear(x[i].holds, y[i].holds, tol, TRUE) /\ ListNear(x[i].rolls, y[i].rolls, tol, TRUE)
         /\ x[i].type = y[i].type /\ x[i].diff = y[i].diff /\ x[i].meter = y[i].meter

Clauses(e) ==
    IF e.exc # "" THEN [ no_exc |-> FALSE ]
    ELSE CASE e.op = "read" -> ReadClauses(e)
           [] e.op = "write" -> WriteClauses(e)
           [] e.op = "reread" -> [ same_again |-> IF e.on_lines THEN e.second = e.first ELSE AgainNear(e.first, e.second),
                                   header_kept |-> e.set_back = e.set ]

Failing(e) == LET c == Clauses(e) IN { k \in DOMAIN c : ~c[k] }
Init == l = 1 /\ nbad = 0
Next == /\ l <= Len(TLog)
        /\ LET f == Failing(TLog[l]) IN
             /\ (f # {} => PrintT(ToJson([id |-> TLog[l].id, failing |-> f])))
             /\ nbad' = nbad + (IF f = {} THEN 0 ELSE 1)
        /\ l' = l + 1
Spec == Init /\ [][Next]_<<l, nbad>>
Done == (l = Len(TLog) + 1) => PrintT(ToJson([done |-> l - 1, bad |-> nbad]))
=============================================================================
