SPECIFICATION Spec
CONSTANTS
  K = 2
  MaxFrames = 4
  Deltas = {0, 10}
  Emit = TRUE
INVARIANT PipelineAfterBaseline
INVARIANT PipelineSubset
CONSTRAINT EmitScn
CHECK_DEADLOCK FALSE
