SPECIFICATION Spec
CONSTANTS
  Offs <- OffsT
  Lens = {0, 500}
  MaxRows = 3
  Depth = 2
  Cuts <- CutsQ
  Emit = TRUE
INVARIANT PartitionLaw
INVARIANT BetweenLaw
INVARIANT SortLaw
INVARIANT SliceLaw
CONSTRAINT EmitScn
