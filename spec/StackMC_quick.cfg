SPECIFICATION Spec
CONSTANTS
  Depth = 2
  FullMasks = FALSE
  Emit = TRUE
INVARIANT WritesThrough
INVARIANT Shape
CONSTRAINT EmitScn
