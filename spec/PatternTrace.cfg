SPECIFICATION Spec
CONSTRAINT Done
