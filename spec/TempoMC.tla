------------------------------ MODULE TempoMC ------------------------------
(***************************************************************************)
(* Bounded model of TimingMap.offsets / snaps: tempo lists and query       *)
(* tuples are built by actions, then the code-shaped reverse sweep         *)
(* (OffsetsImpl: argsort, walk the sorted queries backwards with a         *)
(* decreasing tempo index, un-permute) runs one query per step.            *)
(* Invariant: the sweep's result is the index-aligned integration (Ref).   *)
(***************************************************************************)
EXTENDS Tempo, TLC, Json

CONSTANTS G, BLs, Mets, MaxC, MaxQ, MaxM, T0s, Emit

VARIABLES tl, t0, qs, phase, order, i, bci, acc
vars == <<tl, t0, qs, phase, order, i, bci, acc>>

T0Set == {0, 0 - 70000, 1250000}
T0One == {0 - 70000}
Beats(met) == 0..(met * G - 1)

Init == /\ \E bl \in BLs, met \in Mets : tl = << [m |-> 0, b |-> 0, bl |-> bl, met |-> met] >>
        /\ t0 \in T0s
        /\ qs = <<>> /\ phase = "build" /\ order = <<>> /\ i = 0 /\ bci = 0 /\ acc = <<>>

Last == tl[Len(tl)]

AddChange ==
    /\ phase = "build" /\ Len(tl) < MaxC
    /\ \E bl \in BLs, met \in Mets, m \in Last.m..MaxM, b \in Beats(Last.met) :
          LET c == [m |-> m, b |-> b, bl |-> bl, met |-> met]
              ntl == Append(tl, c)
          IN /\ SnapLt(Last.m, Last.b, m, b)
             /\ b < met * G
             /\ (Seated(ntl) \/ ConstMet(ntl))
             /\ tl' = ntl
    /\ UNCHANGED <<t0, qs, phase, order, i, bci, acc>>

StartQueries == /\ phase = "build" /\ phase' = "query"
                /\ UNCHANGED <<tl, t0, qs, order, i, bci, acc>>

(* a query carries the metronome of the segment it falls into, as a user of the API would *)
AddQuery ==
    /\ phase = "query" /\ Len(qs) < MaxQ
    /\ \E m \in 0..MaxM+1 :
         LET k == SegOfSnap(tl, m, 0) IN
         \E b \in Beats(tl[k].met) :
            qs' = Append(qs, [m |-> m, b |-> b])
    /\ UNCHANGED <<tl, t0, phase, order, i, bci, acc>>

(* argsort: any permutation that sorts the queries (numpy's quicksort is not stable) *)
Sorting(p) == /\ p \in [1..Len(qs) -> 1..Len(qs)]
              /\ \A x, y \in 1..Len(qs) : x # y => p[x] # p[y]
              /\ \A x \in 1..Len(qs)-1 : SnapLe(qs[p[x]].m, qs[p[x]].b, qs[p[x+1]].m, qs[p[x+1]].b)

StartSweep ==
    /\ phase = "query" /\ Len(qs) >= 1
    /\ \E p \in [1..Len(qs) -> 1..Len(qs)] : Sorting(p) /\ order' = p
    /\ phase' = "sweep" /\ i' = Len(qs) /\ bci' = Len(tl) /\ acc' = <<>>
    /\ UNCHANGED <<tl, t0, qs>>

(* one iteration of `for snap in reversed(snaps[sorter])` *)
RECURSIVE Walk(_, _)
Walk(k, q) == IF k >= 1 /\ SnapLt(q.m, q.b, tl[k].m, tl[k].b) THEN Walk(k - 1, q) ELSE k
SweepStep ==
    /\ phase = "sweep" /\ i >= 1
    /\ LET q == qs[order[i]]
           k == Walk(bci, q)
       IN /\ k >= 1
          /\ bci' = k
          /\ acc' = Append(acc, StartTicks(tl, G, t0, k)
                      + ((q.m - tl[k].m) * tl[k].met * G + q.b - tl[k].b) * (tl[k].bl \div G))
    /\ i' = i - 1
    /\ UNCHANGED <<tl, t0, qs, phase, order>>

Finish == /\ phase = "sweep" /\ i = 0 /\ phase' = "done"
          /\ UNCHANGED <<tl, t0, qs, order, i, bci, acc>>

Next == AddChange \/ StartQueries \/ AddQuery \/ StartSweep \/ SweepStep \/ Finish
Spec == Init /\ [][Next]_vars

(* `np.array(offsets)[sorter[::-1].argsort()]`: acc[j] belongs to query order[n+1-j] *)
Result == [x \in 1..Len(qs) |->
             LET j == CHOOSE j \in 1..Len(qs) : order[Len(qs) + 1 - j] = x IN acc[j]]

ImplRefinesRef ==
    phase = "done" => \A x \in 1..Len(qs) : Result[x] = PosToTicks(tl, G, t0, qs[x].m, qs[x].b)

TypeOK == WellFormedTl(tl, G)

(* round trip on the grid, at design level *)
RoundTrip ==
    phase = "query" =>
      \A x \in 1..Len(qs) :
        LET t == PosToTicks(tl, G, t0, qs[x].m, qs[x].b)
            p == TicksToPos(tl, G, t0, t)
        IN OnGrid(tl, G, t0, t) /\ PosToTicks(tl, G, t0, p.m, p.b) = t

(* scenario emission: one line per tempo list (state at the build->query edge) *)
EmitScn == (Emit /\ phase = "query" /\ qs = <<>>) =>
              PrintT(ToJson([kind |-> "tl", G |-> G, t0 |-> t0, tl |-> tl, maxm |-> MaxM,
                              starts |-> [k \in DOMAIN tl |-> StartTicks(tl, G, t0, k)]]))
=============================================================================
