----------------------------- MODULE FieldTrace -----------------------------
(* Trace validator for the PlayField extension: every record is one real rendering (PlayField + PFDrawNotes) of a chart  *)
(* of FieldMC; e.px are the pixels of the image that are not background.                                                  *)
EXTENDS Field, TLC, Json, IOUtils
VARIABLES l, nbad
TLog == ndJsonDeserialize(IOEnv.TRACE_FILE)
Px(e) == { <<e.px[i][1], e.px[i][2]>> : i \in DOMAIN e.px }
Clauses(e) ==
    IF e.exc # "" THEN [ no_exc |-> FALSE ]
    ELSE LET ns == e.notes  c == e.cfg  px == Px(e) IN
    [ canvas |-> e.w = CanvasW(ns, c) /\ e.h = CanvasH(ns, c),
      \* nothing is drawn outside the rectangles the notes are entitled to
      within_boxes |-> \A p \in px : \E i \in DOMAIN ns : \E b \in Boxes(ns, c, ns[i]) : InBox(p[1], p[2], b),
      \* a hit fills its rectangle
      hits_filled |-> \A i \in DOMAIN ns : ns[i].n = 0 => Pixels(ns, c, HitBox(ns, c, ns[i])) \subseteq px,
      \* every part of a hold that lies on the canvas shows at least one pixel
      holds_visible |-> \A i \in DOMAIN ns : ns[i].n > 0 =>
                           \A b \in Boxes(ns, c, ns[i]) : Pixels(ns, c, b) # {} => Pixels(ns, c, b) \cap px # {} ]
Failing(e) == LET c == Clauses(e) IN { k \in DOMAIN c : ~c[k] }
Init == l = 1 /\ nbad = 0
Next == /\ l <= Len(TLog)
        /\ LET f == Failing(TLog[l]) IN
             /\ (f # {} => PrintT(ToJson([id |-> TLog[l].id, failing |-> f])))
             /\ nbad' = nbad + (IF f = {} THEN 0 ELSE 1)
        /\ l' = l + 1
Spec == Init /\ [][Next]_<<l, nbad>>
Done == (l = Len(TLog) + 1) => PrintT(ToJson([done |-> l - 1, bad |-> nbad]))
=============================================================================
