----------------------------- MODULE FieldTrace -----------------------------
(* Trace validator for the PlayField extension: every record is one real rendering (PlayField + PFDrawNotes) of a chart  *)
(* of FieldMC; e.px are the pixels of the image that are not background.                                                  *)
EXTENDS Field, TLC, Json, IOUtils
VARIABLES l, nbad
TLog == ndJsonDeserialize(IOEnv.TRACE_FILE)
Px(e) == { <<e.px[i][1], e.px[i][2]>> : i \in DOMAIN e.px }
FoldClauses(e) ==
    LET px == Px(e)  fpx == { <<e.fpx[i][1], e.fpx[i][2]>> : i \in DOMAIN e.fpx } IN
    [ fold_size |-> e.fw = FoldW(e.w, e.h, e.mx, e.line) /\ e.fh = e.mx,
      \* a note pixel of the folded image is the note pixel of the tall image it stands for, and none is lost
      fold_pixels |-> /\ \A p \in fpx : FoldSource(e.w, e.h, e.mx, e.line, p[1], p[2]) \in px
                      /\ \A q \in px : \E x \in 0..(e.fw - 1), y \in 0..(e.fh - 1) :
                              FoldSource(e.w, e.h, e.mx, e.line, x, y) = q /\ <<x, y>> \in fpx ]
(* op = "lines": PlayField + PFDrawBeatLines(divisions = e.divs) alone; e.lpx are the non-background pixels as <<x, y, d>>  *)
(* where d is the division whose colour the pixel has (0: some other colour)                                               *)
LineClauses(e) ==
    LET ns == e.notes  c == e.cfg  divs == { e.divs[i] : i \in DOMAIN e.divs }
        lp == { <<e.lpx[i][1], e.lpx[i][2], e.lpx[i][3]>> : i \in DOMAIN e.lpx }
        rows == { p[2] : p \in lp } IN
    [ canvas |-> e.w = CanvasW(ns, c) /\ e.h = CanvasH(ns, c),
      line_rows |-> rows = VisibleRows(ns, c, e.bl, divs),
      line_span |-> \A y \in rows : { p[1] : p \in { q \in lp : q[2] = y } } = 0..LineXMax(ns, c),
      line_colour |-> \A p \in lp : p[2] \in VisibleRows(ns, c, e.bl, divs) => p[3] = RowDivision(ns, c, e.bl, divs, p[2]) ]
(* op = "seps": PlayField + PFDrawColumnLines alone; e.px are the non-background pixels *)
SepClauses(e) ==
    LET ns == e.notes  c == e.cfg  px == Px(e) IN
    [ canvas |-> e.w = CanvasW(ns, c) /\ e.h = CanvasH(ns, c),
      sep_rows |-> { p[2] : p \in px } = (IF GapXs(ns, c) = {} THEN {} ELSE SepRows(ns, c)),
      sep_in_gaps |-> \A p \in px : p[1] \in GapXs(ns, c),
      sep_gaps_filled |-> SepPixels(ns, c) \subseteq px,
      \* (transcription level) the separators stand exactly where the code is known to put them
      sep_as_coded |-> px = { <<x, y>> \in CodedSepXs(ns, c) \X SepRows(ns, c) : OnCanvas(ns, c, x, y) } ]
Clauses(e) ==
    IF e.exc # "" THEN [ no_exc |-> FALSE ]
    ELSE IF e.op = "fold" THEN FoldClauses(e)
    ELSE IF e.op = "lines" THEN LineClauses(e)
    ELSE IF e.op = "seps" THEN SepClauses(e)
    ELSE LET ns == e.notes  c == e.cfg  px == Px(e) IN
    [ canvas |-> e.w = CanvasW(ns, c) /\ e.h = CanvasH(ns, c),
      \* nothing is drawn outside the rectangles the notes are entitled to
      within_boxes |-> \A p \in px : \E i \in DOMAIN ns : \E b \in Boxes(ns, c, ns[i]) : InBox(p[1], p[2], b),
      \* a hit fills its rectangle
      hits_filled |-> \A i \in DOMAIN ns : ns[i].n = 0 => Pixels(ns, c, HitBox(ns, c, ns[i])) \subseteq px,
      \* every part of a hold that lies on the canvas shows at least one pixel
      holds_visible |-> \A i \in DOMAIN ns : ns[i].n > 0 =>
                           \A b \in Boxes(ns, c, ns[i]) : Pixels(ns, c, b) # {} => Pixels(ns, c, b) \cap px # {} ]
Failing(e) == LET c == Clauses(e) IN { k \in DOMAIN c : ~c[k] }
Init == l = 1 /\ nbad = 0
Next == /\ l <= Len(TLog)
        /\ LET f == Failing(TLog[l]) IN
             /\ (f # {} => PrintT(ToJson([id |-> TLog[l].id, failing |-> f])))
             /\ nbad' = nbad + (IF f = {} THEN 0 ELSE 1)
        /\ l' = l + 1
Spec == Init /\ [][Next]_<<l, nbad>>
Done == (l = Len(TLog) + 1) => PrintT(ToJson([done |-> l - 1, bad |-> nbad]))
=============================================================================
