----------------------------- MODULE SpeedTrace -----------------------------
(* Trace validator for C19. *)
EXTENDS Speed, TLC, Json, IOUtils
VARIABLES l, nbad
TLog == ndJsonDeserialize(IOEnv.TRACE_FILE)

Clauses(e) ==
    IF e.exc # "" THEN [ no_exc |-> FALSE ]
    ELSE CASE e.op = "dominant" -> [ dominant |-> e.out \in Dominant(e.tps, e.last) ]
           [] e.op = "scroll" -> ScrollClauses(e.tps, e.svs, e.has_sv, e.first, e.last, e.override, e.index, e.speed)
           [] e.op = "normalize" -> NormalizeClauses(e.tps, e.last, e.override, e.out)

Failing(e) == LET c == Clauses(e) IN { k \in DOMAIN c : ~c[k] }
Init == l = 1 /\ nbad = 0
Next == /\ l <= Len(TLog)
        /\ LET f == Failing(TLog[l]) IN
             /\ (f # {} => PrintT(ToJson([id |-> TLog[l].id, failing |-> f])))
             /\ nbad' = nbad + (IF f = {} THEN 0 ELSE 1)
        /\ l' = l + 1
Spec == Init /\ [][Next]_<<l, nbad>>
Done == (l = Len(TLog) + 1) => PrintT(ToJson([done |-> l - 1, bad |-> nbad]))
=============================================================================
