------------------------------- MODULE Reseat -------------------------------
(***************************************************************************)
(* C11: reseating tempo changes onto measure lines.                        *)
(*                                                                         *)
(* in  : tempo list in snap form (see Tempo), positions on the 1/G grid.   *)
(* out : sequence of [m |-> measure, bn, bd |-> beat fraction (must be 0), *)
(*       bl |-> beat length in ticks, met |-> metronome].                  *)
(* Times are relative to the first change (T0 = 0).                        *)
(***************************************************************************)
EXTENDS Tempo

(* time of out point j by integrating out's own measures *)
RECURSIVE OutStart(_, _)
OutStart(out, j) ==
    IF j = 1 THEN 0
    ELSE OutStart(out, j-1) + (out[j].m - out[j-1].m) * out[j-1].met * out[j-1].bl

InTimes(in, G) == [k \in DOMAIN in |-> StartTicks(in, G, 0, k)]

WholeMeasuresFollow(in, G, k) ==
    k < Len(in) /\ StartTicks(in, G, 0, k+1) > StartTicks(in, G, 0, k) /\
    (StartTicks(in, G, 0, k+1) - StartTicks(in, G, 0, k)) % (in[k].bl * in[k].met) = 0

(* beat length active in `in` at time t *)
InBlAt(in, G, t) == in[Max2(1, SegOfTicks(in, G, 0, t))].bl

(* The property, clause by clause.  ot = times of the out points, tol in ticks. *)
ReseatClauses(in, G, out, ot, tol) ==
    LET ti == InTimes(in, G)
        n  == Len(in)
        Near(a, b) == Abs(a - b) <= tol
    IN
    [ on_measure_lines |-> \A j \in DOMAIN out : out[j].bn = 0 /\ out[j].m >= 0,
      measures_increase |-> /\ Len(out) >= 1 /\ out[1].m = 0
                            \* (two points may share a measure line only where the input overrides a tempo on the spot)
                            /\ \A j \in 1..Len(out)-1 : out[j].m < out[j+1].m \/ (HasDup(in) /\ out[j].m = out[j+1].m),
      positive_bpm     |-> \A j \in DOMAIN out : out[j].bl > 0 /\ out[j].met >= 1,
      times_kept       |-> \A k \in 1..n : \E j \in DOMAIN out : Near(ot[j], ti[k]),
      bpm_kept         |-> \A k \in 1..n : (k = n \/ WholeMeasuresFollow(in, G, k)) =>
                              \E j \in DOMAIN out : Near(ot[j], ti[k]) /\ Abs(out[j].bl - in[k].bl) <= 1,
      one_extra        |-> /\ \A k \in 1..n-1 :
                                Cardinality({ j \in DOMAIN out : ot[j] > ti[k] + tol /\ ot[j] < ti[k+1] - tol }) <= 1
                           /\ \A j \in DOMAIN out : ot[j] <= ti[n] + tol /\ ot[j] >= 0 - tol,
      \* (of several points at one time the last is the one in force)
      seated_same      |-> Seated(in) =>
                              \A j \in DOMAIN out : (j = Len(out) \/ ot[j+1] > ot[j] + tol) =>
                                  Abs(out[j].bl - InBlAt(in, G, ot[j])) <= 1 ]

ReseatRef(in, G, out, ot, tol) ==
    LET c == ReseatClauses(in, G, out, ot, tol) IN \A k \in DOMAIN c : c[k]
=============================================================================
