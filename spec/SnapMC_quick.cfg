SPECIFICATION Spec
CONSTANTS
  G = 2
  Mets = {3, 4}
  MaxM = 2
  MaxLen = 3
  Dens = {1, 2, 3, 4, 6, 8, 12, 16, 48}
  Ths = {13, 100}
  Emit = TRUE
INVARIANT TypeOK
INVARIANT CodeIsDocNonNeg
INVARIANT NormSound
INVARIANT LcmInv
INVARIANT LcmDone
CONSTRAINT EmitScn
CHECK_DEADLOCK FALSE
