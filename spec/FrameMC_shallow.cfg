SPECIFICATION Spec
CONSTANTS
  MaxObj = 4
  ShallowRate = TRUE
INVARIANT InputsStable
INVARIANT CopiesDisjoint
