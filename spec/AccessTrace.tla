----------------------------- MODULE AccessTrace -----------------------------
(* Trace validator for the typed-access extension: every record is `chart[T]`, `chart[T] = copies`, `chart[T]` on a real chart. *)
EXTENDS Access, TLC, Json, IOUtils
VARIABLES l, nbad
TLog == ndJsonDeserialize(IOEnv.TRACE_FILE)
AsSets(objs) == [k \in DOMAIN objs |-> [name |-> objs[k].name, id |-> objs[k].id, anc |-> { objs[k].anc[i] : i \in DOMAIN objs[k].anc }]]
Clauses(e) ==
    LET o == AsSets(e.objs)
        n == Cardinality(Matching(o, e.T))
        v == [k \in 1..n |-> 100 + k] IN
    IF n = 0 THEN [ refuses |-> e.exc = "IndexError" ]
    ELSE IF e.exc # "" THEN [ no_exc |-> FALSE ]
    ELSE [ get |-> e.got = Names(Get(o, e.T)),
           set_as_documented |-> e.after = Ids(Get(SetDoc(o, e.T, v), e.T)),
           set_as_coded |-> e.after = Ids(Get(SetCode(o, e.T, v), e.T)) ]
Failing(e) == LET c == Clauses(e) IN { k \in DOMAIN c : ~c[k] }
Init == l = 1 /\ nbad = 0
Next == /\ l <= Len(TLog)
        /\ LET f == Failing(TLog[l]) IN
             /\ (f # {} => PrintT(ToJson([id |-> TLog[l].id, failing |-> f])))
             /\ nbad' = nbad + (IF f = {} THEN 0 ELSE 1)
        /\ l' = l + 1
Spec == Init /\ [][Next]_<<l, nbad>>
Done == (l = Len(TLog) + 1) => PrintT(ToJson([done |-> l - 1, bad |-> nbad]))
=============================================================================
