SPECIFICATION Spec
CONSTANTS
  MaxLists = 3
  Emit = FALSE
  UseCode = TRUE
INVARIANT SetThenGet
CHECK_DEADLOCK FALSE
