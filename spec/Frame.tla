------------------------------- MODULE Frame -------------------------------
(***************************************************************************)
(* C14: operations that return a new value leave their inputs identical in *)
(* values, columns, types and row labels; results documented as copies     *)
(* share no mutable state with the input.                                  *)
(*                                                                         *)
(* The projection of an object (list, chart, map set) is an arbitrary      *)
(* nested value; the frame condition is plain equality of the projections  *)
(* taken before and after the call.                                        *)
(***************************************************************************)
EXTENDS Integers, Sequences, FiniteSets

Untouched(before, after) == after = before

(* `poked` is the input's projection taken after every mutable component of the result *)
(* (cells of every list, dict / list valued attributes) was modified in place           *)
NoShare(before, poked) == poked = before
=============================================================================
