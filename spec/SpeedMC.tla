------------------------------ MODULE SpeedMC ------------------------------
(***************************************************************************)
(* Every small layout of tempo points and SVs.  SvImpl transcribes what    *)
(* scroll_speed does with pandas: rows (tempo time, 1), (first, 1),        *)
(* (last, none) and the SVs are concatenated IN THAT ORDER, the last row   *)
(* of each time wins (groupby.last skipping missing values), gaps are      *)
(* forward-filled.  DominantImpl: sort the tempo times with the last       *)
(* object, diff, sum per bpm, idxmax.  Invariants: both agree with the     *)
(* definitions of the property for every layout; each layout is emitted.   *)
(***************************************************************************)
EXTENDS Speed, TLC, Json

CONSTANTS MaxTp, MaxSv, Times, BpmVals, Mults, Emit
VARIABLES tps, svs, done
vars == <<tps, svs, done>>

Init == /\ \E b \in BpmVals : tps = << [t |-> 0, bpm |-> b] >>
        /\ svs = <<>> /\ done = FALSE
AddTp == /\ ~done /\ Len(tps) < MaxTp /\ svs = <<>>
         /\ \E t \in Times, b \in BpmVals : /\ t > tps[Len(tps)].t
                                            /\ tps' = Append(tps, [t |-> t, bpm |-> b])
         /\ UNCHANGED <<svs, done>>
AddSv == /\ ~done /\ Len(svs) < MaxSv
         /\ \E t \in Times, m \in Mults : /\ (IF svs = <<>> THEN TRUE ELSE svs[Len(svs)].t <= t)
                                          /\ svs' = Append(svs, [t |-> t, m |-> m])
         /\ UNCHANGED <<tps, done>>
Finish == ~done /\ done' = TRUE /\ UNCHANGED <<tps, svs>>
Next == AddTp \/ AddSv \/ Finish
Spec == Init /\ [][Next]_vars

MaxT == CHOOSE x \in Times : \A y \in Times : y <= x
Last == MaxT                                   \* a hit sits at the last time
First == 0
Index == TpTimes(tps) \cup { svs[i].t : i \in DOMAIN svs } \cup {First, Last}

(* rows in concat order: tempo resets, (first, 1), SVs; value of a time = last row at that time *)
Rows == [i \in 1..Len(tps) |-> [t |-> tps[i].t, m |-> One]] \o << [t |-> First, m |-> One] >> \o svs
SvImplAt(t) ==
    LET S == { i \in DOMAIN Rows : Rows[i].t <= t }
        top == { i \in S : \A j \in S : Rows[j].t <= Rows[i].t }
        win == CHOOSE i \in top : \A j \in top : j <= i
    IN  Rows[win].m
SvImplRefinesRef == done => \A t \in Index : SvImplAt(t) \in ActiveSv(tps, svs, t)

DominantImpl == CHOOSE b \in Bpms(tps) : \A c \in Bpms(tps) : TotalActive(tps, Last, c) <= TotalActive(tps, Last, b)
DominantSane == done => /\ DominantImpl \in Dominant(tps, Last)
                        /\ \A b \in Bpms(tps) : TotalActive(tps, Last, b) >= 0
DurationsCover == done => SumDur(tps, Last, DOMAIN tps) = Last - tps[1].t

EmitScn == (Emit /\ done) => PrintT(ToJson([kind |-> "speed", tps |-> tps, svs |-> svs, last |-> Last]))
=============================================================================
