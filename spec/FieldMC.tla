------------------------------ MODULE FieldMC ------------------------------
(***************************************************************************)
(* Bounded model of the PlayField geometry: every chart of up to MaxNotes   *)
(* notes over Times x Cols x Lens and every configuration of Cfgs.          *)
(* Invariants: rectangles of different columns never share a pixel;         *)
(* with a lead of at least two hit heights on each side every hit lies      *)
(* inside the canvas (HitsInside).  SANITY (must be violated,               *)
(* FieldMC_sanity.cfg): the same without the lead -- the first and last     *)
(* notes are clipped, which is what start_lead / end_lead are for.          *)
(***************************************************************************)
EXTENDS Field, TLC, Json
CONSTANTS MaxNotes, Times, Cols, Lens, Cfgs, Emit, NeedLead, NeedCover
VARIABLES notes, cfg, done
C(dpp, nw, hh, lh, clw, sl, el, pad) == [dpp |-> dpp, nw |-> nw, hh |-> hh, lh |-> lh, clw |-> clw, sl |-> sl, el |-> el, pad |-> pad]
CfgsQ == { C(5, 4, 2, 2, 1, 20, 20, 0), C(5, 3, 1, 2, 2, 0, 0, 1), C(2, 4, 3, 1, 1, 12, 12, 0), C(5, 4, 1, 1, 1, 20, 40, 0) }
CfgsT == CfgsQ \cup { C(5, 4, 2, 2, 0, 20, 20, 3), C(3, 5, 2, 3, 1, 12, 30, 0), C(10, 2, 1, 1, 1, 0, 20, 0) }
Init == notes = <<>> /\ cfg \in Cfgs /\ done = FALSE
Add == /\ ~done /\ Len(notes) < MaxNotes
       /\ \E t \in Times, c \in Cols, n \in Lens :
            /\ (IF notes = <<>> THEN TRUE ELSE notes[Len(notes)].t <= t)
            /\ notes' = Append(notes, [t |-> t, c |-> c, n |-> n])
       /\ UNCHANGED <<cfg, done>>
Finish == ~done /\ notes # <<>> /\ done' = TRUE /\ UNCHANGED <<notes, cfg>>
Spec == Init /\ [][Add \/ Finish]_<<notes, cfg, done>>

Lead(c) == c.sl >= 2 * c.hh * c.dpp /\ c.el >= 2 * c.hh * c.dpp
ColumnsDisjoint == done => \A i, j \in DOMAIN notes : notes[i].c # notes[j].c =>
    \A a \in Boxes(notes, cfg, notes[i]), b \in Boxes(notes, cfg, notes[j]) : Pixels(notes, cfg, a) \cap Pixels(notes, cfg, b) = {}
HitsInside == (done /\ (NeedLead => Lead(cfg))) => \A i \in DOMAIN notes : notes[i].n = 0 => Inside(notes, cfg, HitBox(notes, cfg, notes[i]))
(* beat lines (PFDrawBeatLines) on the same charts: beat length BL, divisions Divs *)
BL == 20
Divs == {1, 2, 4}
\* with the lead every beat line lies on the canvas; a coarser division's lines are lines of every finer one that it divides
LinesInside == (done /\ (NeedLead => Lead(cfg))) => \A d \in Divs : \A y \in LineRows(notes, cfg, BL, d) : y >= 0 /\ y < CanvasH(notes, cfg)
LinesNested == done => \A d, e \in Divs : (e % d = 0) => LineTimes(notes, BL, d) \subseteq LineTimes(notes, BL, e)
\* a hit that stands on a beat line rests on it: the line is the row just below the hit's rectangle
HitsRestOnLines == done => \A i \in DOMAIN notes : \A d \in Divs :
    (notes[i].n = 0 /\ notes[i].t \in LineTimes(notes, BL, d)) =>
        LET b == HitBox(notes, cfg, notes[i]) IN LineRow(notes, cfg, notes[i].t) = b.y0 + b.h
\* the gaps the separators are entitled to never hold a pixel of a note
GapsAvoidNotes == done => \A i \in DOMAIN notes : \A b \in Boxes(notes, cfg, notes[i]) : \A x \in GapXs(notes, cfg) : ~(x >= b.x0 /\ x < b.x0 + b.w)
\* the coded separator positions are the gaps exactly when the line width is at most 1
CodedSepsAreGapsWhenThin == (done /\ Keys(notes) > 1) => ((cfg.clw <= 1) <=> (CodedSepXs(notes, cfg) = GapXs(notes, cfg)))
\* holds: the canvas ends `el` after the last START time, so the tail of a late hold is clipped unless the end lead also
\* covers the hold's length (HoldsInside; FieldMC_sanity2.cfg demands it from the ordinary lead alone and must be violated)
LeadCovers(c, n) == c.el >= n + (c.hh + c.lh + 1) * c.dpp
HoldsInside == (done /\ Lead(cfg)) => \A i \in DOMAIN notes : (notes[i].n > 0 /\ (NeedCover => LeadCovers(cfg, notes[i].n))) =>
    \A b \in Boxes(notes, cfg, notes[i]) : Inside(notes, cfg, b)
EmitScn == (Emit /\ done) => PrintT(ToJson([kind |-> "field", notes |-> notes, cfg |-> cfg]))
=============================================================================
