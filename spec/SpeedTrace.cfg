SPECIFICATION Spec
CONSTRAINT Done
