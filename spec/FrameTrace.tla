----------------------------- MODULE FrameTrace -----------------------------
(* Trace validator for C14: one record per call, with the projections of every input. *)
EXTENDS Frame, TLC, Json, IOUtils
VARIABLES l, nbad
TLog == ndJsonDeserialize(IOEnv.TRACE_FILE)

Clauses(e) ==
    IF e.exc # "" THEN [ no_exc |-> FALSE ]
    ELSE [ input_unchanged |-> Untouched(e.before, e.after),
           no_share |-> (~e.copy) \/ NoShare(e.before, e.poked) ]

Failing(e) == LET c == Clauses(e) IN { k \in DOMAIN c : ~c[k] }
Init == l = 1 /\ nbad = 0
Next == /\ l <= Len(TLog)
        /\ LET f == Failing(TLog[l]) IN
             /\ (f # {} => PrintT(ToJson([id |-> TLog[l].id, failing |-> f])))
             /\ nbad' = nbad + (IF f = {} THEN 0 ELSE 1)
        /\ l' = l + 1
Spec == Init /\ [][Next]_<<l, nbad>>
Done == (l = Len(TLog) + 1) => PrintT(ToJson([done |-> l - 1, bad |-> nbad]))
=============================================================================
