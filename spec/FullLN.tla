------------------------------- MODULE FullLN -------------------------------
(***************************************************************************)
(* C17: full-LN generation.                                                *)
(* A note is [t |-> time, c |-> column, n |-> length, k |-> "hit"|"hold"]  *)
(* (n = 0 for hits).  gap >= 0, thr >= 0, all in the same integer unit.    *)
(*                                                                         *)
(* Rule, per column, for the notes in time order (notes stacked at one     *)
(* time in one column: either order):                                      *)
(*   every note but the last becomes a hold ending `gap` before the next   *)
(*   note of the column when that leaves at least `thr`, else a hit;       *)
(*   the last note keeps its kind and length.                              *)
(***************************************************************************)
EXTENDS Integers, Sequences, FiniteSets

Range(s) == { s[i] : i \in DOMAIN s }
SameBag(s1, s2) ==
    /\ Len(s1) = Len(s2)
    /\ \A r \in Range(s1) \cup Range(s2) :
          Cardinality({ i \in DOMAIN s1 : s1[i] = r }) = Cardinality({ i \in DOMAIN s2 : s2[i] = r })

Cols(notes) == { notes[i].c : i \in DOMAIN notes }
InCol(notes, c) == { i \in DOMAIN notes : notes[i].c = c }

(* all time-ordered arrangements of the index set S *)
Orders(notes, S) ==
    { p \in [1..Cardinality(S) -> S] :
        /\ \A x, y \in 1..Cardinality(S) : x # y => p[x] # p[y]
        /\ \A x \in 1..Cardinality(S)-1 : notes[p[x]].t <= notes[p[x+1]].t }

Out(a, next, gap, thr) ==
    LET inv == next.t - a.t - gap IN
    IF inv >= thr THEN [t |-> a.t, c |-> a.c, n |-> inv, k |-> "hold"]
                  ELSE [t |-> a.t, c |-> a.c, n |-> 0,   k |-> "hit"]

(* result of one column under the order p *)
ColResult(notes, p, gap, thr) ==
    [x \in DOMAIN p |-> IF x = Len(p) THEN notes[p[x]] ELSE Out(notes[p[x]], notes[p[x+1]], gap, thr)]

(* `out` restricted to column c is what some admissible order produces *)
ColOK(notes, out, c, gap, thr) ==
    LET S == InCol(notes, c)
        O == InCol(out, c)
        outc == [i \in 1..Cardinality(O) |->
                   out[CHOOSE j \in O : Cardinality({ q \in O : q < j }) = i - 1]]
    IN  \E p \in Orders(notes, S) : SameBag(ColResult(notes, p, gap, thr), outc)

FullLNClauses(notes, out, gap, thr) ==
    [ notes_kept |-> SameBag([i \in DOMAIN notes |-> <<notes[i].t, notes[i].c>>],
                             [i \in DOMAIN out |-> <<out[i].t, out[i].c>>]),
      rule       |-> \A c \in Cols(notes) \cup Cols(out) : ColOK(notes, out, c, gap, thr),
      (* a generated hold never reaches the next note of its column *)
      no_overlap |-> \A i \in DOMAIN out : out[i].k = "hold" =>
                        \/ \E j \in DOMAIN notes : notes[j].t = out[i].t /\ notes[j].c = out[i].c
                                                   /\ notes[j].k = "hold" /\ notes[j].n = out[i].n   \* kept as it was
                        \/ \A j \in DOMAIN out : (out[j].c = out[i].c /\ out[j].t > out[i].t) =>
                                                   out[i].t + out[i].n <= out[j].t
                        ]
=============================================================================
