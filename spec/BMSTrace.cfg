SPECIFICATION Spec
CONSTRAINT Done
