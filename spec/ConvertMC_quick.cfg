SPECIFICATION Spec
CONSTANTS
  MaxRows = 3
  Depth = 2
  LabelAligned = FALSE
  Emit = TRUE
INVARIANT Preserved
CONSTRAINT EmitScn
