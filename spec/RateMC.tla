------------------------------ MODULE RateMC ------------------------------
(***************************************************************************)
(* Bounded model of rate changes: a time value and a bpm value carried     *)
(* through every sequence of up to two rate changes, in exact rationals.   *)
(* Laws checked in every state: identity, composition, inverse relation    *)
(* between time and bpm (beat positions are invariant).  Every history is  *)
(* emitted and replayed on charts / map sets of the five games.            *)
(***************************************************************************)
EXTENDS Rate, TLC, Json

CONSTANTS Rates, Depth, Emit       \* Rates: set of <<n, d>>
VARIABLES hist, tn, td, bn, bd, shape
vars == <<hist, tn, td, bn, bd, shape>>

RatesQ == { <<1,2>>, <<1,1>>, <<3,2>>, <<2,1>>, <<3,1>> }
RatesT == RatesQ \cup { <<4,5>>, <<5,4>>, <<11,10>> }
T0 == 6
B0 == 120      \* a bpm

Shapes == { <<nh, nl, nsv, ns>> : nh \in {0, 2}, nl \in {0, 1}, nsv \in {0, 1}, ns \in {0, 1} }

Init == /\ hist = <<>> /\ tn = T0 /\ td = 1 /\ bn = B0 /\ bd = 1 /\ shape \in Shapes

RateBy == \E r \in Rates :
    /\ Len(hist) < Depth
    /\ hist' = Append(hist, [n |-> r[1], d |-> r[2]])
    /\ tn' = tn * r[2] /\ td' = td * r[1]
    /\ bn' = bn * r[1] /\ bd' = bd * r[2]
    /\ UNCHANGED shape
Next == RateBy
Spec == Init /\ [][Next]_vars

RECURSIVE ProdN(_), ProdD(_)
ProdN(h) == IF h = <<>> THEN 1 ELSE h[1].n * ProdN(Tail(h))
ProdD(h) == IF h = <<>> THEN 1 ELSE h[1].d * ProdD(Tail(h))

Composition == tn * ProdN(hist) = T0 * ProdD(hist) * td      \* time = T0 / prod(r)
(* time * bpm (the beat position) is invariant under every rate change *)
BeatInvariant == (tn \div 1000) * bn = (T0 \div 1000) * B0 * (td * bd) \/ tn * bn = T0 * B0 * (td * bd)
Identity == (\A i \in DOMAIN hist : hist[i].n = hist[i].d) => (tn = T0 * td /\ bn = B0 * bd)

EmitScn == (Emit /\ Len(hist) >= 1) => PrintT(ToJson([kind |-> "rates", hist |-> hist, shape |-> shape]))
=============================================================================
