SPECIFICATION Spec
CONSTANTS
  MaxObj = 2
  MaxTp = 1
  MaxSv = 1
  Emit = TRUE
INVARIANT DenotationTotal
INVARIANT Defaults
CONSTRAINT EmitScn
