SPECIFICATION Spec
CONSTRAINT Done
