------------------------------ MODULE FrameMC ------------------------------
(***************************************************************************)
(* Heap model of how the library builds results: objects refer to frames   *)
(* (DataFrames); a result is made by                                       *)
(*    Deep   copy.deepcopy            -> fresh frames                      *)
(*    Wrap   cls(tl) / cls(df)        -> the SAME frame object             *)
(*    View   tl[a:b], tl[mask]        -> a view: writes reach the base     *)
(*    Fresh  concat / sort_values ... -> fresh frame                       *)
(* followed by Poke (in-place edit of a result) or EditInput.  `docCopy`   *)
(* marks results the documentation promises to be copies.                  *)
(* Invariants:  InputsStable  no operation other than EditInput changes an *)
(*              input's content;  CopiesDisjoint  a documented copy shares *)
(*              no frame with any other object.                            *)
(* ShallowRate = TRUE models the seeded defect "rate() keeps the frames":  *)
(* TLC then violates both invariants (sanity of the model).                *)
(***************************************************************************)
EXTENDS Frame, TLC

CONSTANTS MaxObj, ShallowRate
VARIABLES heap, obj, docCopy, orig, steps
vars == <<heap, obj, docCopy, orig, steps>>
(* heap: frame id -> content (a number);  obj: object id -> frame id (base) *)

Init == /\ heap = <<10>> /\ obj = <<1>> /\ docCopy = {} /\ orig = <<10>> /\ steps = 0

NewFrame(v) == Append(heap, v)
Mk(fr, copy) == /\ Len(obj) < MaxObj
                /\ obj' = Append(obj, fr)
                /\ docCopy' = IF copy THEN docCopy \cup {Len(obj) + 1} ELSE docCopy
                /\ steps' = steps + 1

Deep  == \E o \in DOMAIN obj : heap' = NewFrame(heap[obj[o]]) /\ Mk(Len(heap) + 1, TRUE) /\ UNCHANGED orig
RateOp == \E o \in DOMAIN obj :
            IF ShallowRate THEN heap' = heap /\ Mk(obj[o], TRUE) /\ UNCHANGED orig
            ELSE heap' = NewFrame(heap[obj[o]] * 2) /\ Mk(Len(heap) + 1, TRUE) /\ UNCHANGED orig
Wrap  == \E o \in DOMAIN obj : heap' = heap /\ Mk(obj[o], FALSE) /\ UNCHANGED orig
View  == \E o \in DOMAIN obj : heap' = heap /\ Mk(obj[o], FALSE) /\ UNCHANGED orig
Fresh == \E o \in DOMAIN obj : heap' = NewFrame(heap[obj[o]]) /\ Mk(Len(heap) + 1, FALSE) /\ UNCHANGED orig
(* the user edits a documented copy in place *)
Poke  == \E o \in docCopy : /\ heap' = [heap EXCEPT ![obj[o]] = @ + 1]
                            /\ UNCHANGED <<obj, docCopy, orig>> /\ steps' = steps + 1 /\ steps < MaxObj + 2

Next == Deep \/ RateOp \/ Wrap \/ View \/ Fresh \/ Poke
Spec == Init /\ [][Next]_vars

InputsStable == heap[obj[1]] = orig[1]
CopiesDisjoint == \A c \in docCopy : \A o \in 1..(c - 1) : obj[o] # obj[c]   \* nothing older is shared
=============================================================================
