SPECIFICATION Spec
CONSTANTS
  Depth = 2
  FullMasks = TRUE
  Emit = TRUE
INVARIANT WritesThrough
INVARIANT Shape
CONSTRAINT EmitScn
