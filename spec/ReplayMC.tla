------------------------------ MODULE ReplayMC ------------------------------
(***************************************************************************)
(* Bounded model of replay parsing: a replay grows frame by frame (action   *)
(* AddFrame); in every state the pipeline (CodeActions) is compared with    *)
(* the documented meaning.  Invariants that hold: PipelineAfterBaseline     *)
(* (positive deltas: exactly the documented actions after the first         *)
(* state-changing frame), PipelineSubset (positive deltas: nothing          *)
(* invented).  SANITY (must be violated, ReplayMC_sanity.cfg):              *)
(* PipelineIsDoc -- the first press of a replay is lost.                    *)
(***************************************************************************)
EXTENDS Replay, TLC, Json

CONSTANTS K, MaxFrames, Deltas, Emit
VARIABLES frames
States == 0..(Pow2(K) - 1)
Init == frames = <<>>
AddFrame == /\ Len(frames) < MaxFrames
            /\ \E d \in Deltas, s \in States : frames' = Append(frames, [d |-> d, s |-> s])
Spec == Init /\ [][AddFrame]_frames

Positive == \A i \in DOMAIN frames : frames[i].d > 0
PipelineAfterBaseline == Positive => SameBag(CodeActions(frames, K), DocAfterBaseline(frames, K))
PipelineSubset == Positive => \A a \in Range(CodeActions(frames, K)) : a \in Range(DocActions(frames, K))
PipelineIsDoc == Positive => SameBag(CodeActions(frames, K), DocActions(frames, K))

EmitScn == (Emit /\ frames # <<>>) => PrintT(ToJson([kind |-> "replay", keys |-> K, frames |-> frames]))
=============================================================================
