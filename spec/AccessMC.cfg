SPECIFICATION Spec
CONSTANTS
  MaxLists = 3
  Emit = TRUE
  UseCode = FALSE
INVARIANT SetThenGet
INVARIANT OthersKept
CONSTRAINT EmitScn
CHECK_DEADLOCK FALSE
