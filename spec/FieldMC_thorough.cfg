SPECIFICATION Spec
CONSTANTS
  MaxNotes = 3
  Times = {0, 7, 15, 40}
  Cols = {0, 1, 2}
  Lens = {0, 25}
  Cfgs <- CfgsT
  Emit = TRUE
  NeedCover = TRUE
  NeedLead = TRUE
INVARIANT ColumnsDisjoint
INVARIANT HitsInside
INVARIANT LinesInside
INVARIANT LinesNested
INVARIANT HitsRestOnLines
INVARIANT GapsAvoidNotes
INVARIANT HoldsInside
INVARIANT CodedSepsAreGapsWhenThin
CONSTRAINT EmitScn
CHECK_DEADLOCK FALSE
