----------------------------- MODULE RateTrace -----------------------------
(* Trace validator for C13. *)
EXTENDS Rate, TLC, Json, IOUtils

VARIABLES l, nbad
TLog == ndJsonDeserialize(IOEnv.TRACE_FILE)

Clauses(e) ==
    IF e.exc # "" THEN [ no_exc |-> FALSE ]
    ELSE CASE e.op = "rate" ->
           [ scaled          |-> ListsRated(e.pre, e.post, e.rn, e.rd),
             meta_scaled     |-> MetaRated(e.meta_pre, e.meta_post, e.rn, e.rd),
             input_untouched |-> e.pre_after = e.pre /\ e.meta_after = e.meta_pre,
             identity        |-> (e.rn = e.rd) => (e.post = e.pre /\ e.meta_post = e.meta_pre) ]
         [] e.op = "compose" ->     \* rate(a) then rate(b)  vs  rate(a*b)
           [ composes |-> ListsNear(e.chained, e.direct, 2)
                          /\ \A k \in DOMAIN e.meta_chained.times :
                                Abs(e.meta_chained.times[k] - e.meta_direct.times[k]) <= 2 ]
         [] e.op = "roundtrip" ->   \* read(write(rated)) against the rated chart, tol in projected units
           [ survives_write |-> ListsNear(e.rated, e.back, e.tol)
                                /\ \A k \in DOMAIN e.meta_rated.times :
                                     (k \in DOMAIN e.meta_back.times /\
                                      Abs(e.meta_rated.times[k] - e.meta_back.times[k]) <= e.tol) ]

Failing(e) == LET c == Clauses(e) IN { k \in DOMAIN c : ~c[k] }
Init == l = 1 /\ nbad = 0
Next == /\ l <= Len(TLog)
        /\ LET f == Failing(TLog[l]) IN
             /\ (f # {} => PrintT(ToJson([id |-> TLog[l].id, failing |-> f])))
             /\ nbad' = nbad + (IF f = {} THEN 0 ELSE 1)
        /\ l' = l + 1
Spec == Init /\ [][Next]_<<l, nbad>>
Done == (l = Len(TLog) + 1) => PrintT(ToJson([done |-> l - 1, bad |-> nbad]))
=============================================================================
