SPECIFICATION Spec
CONSTRAINT Done
