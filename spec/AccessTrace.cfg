SPECIFICATION Spec
CONSTRAINT Done
