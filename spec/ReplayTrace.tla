----------------------------- MODULE ReplayTrace -----------------------------
(* Trace validator for the replay-parsing extension: every record is one real call of parse_replay_actions /      *)
(* parse_replays_error on a replay built from a frame list of ReplayMC.                                             *)
EXTENDS Replay, TLC, Json, IOUtils

VARIABLES l, nbad
TLog == ndJsonDeserialize(IOEnv.TRACE_FILE)

RepTimes(e, c, press) ==
    LET a == CodeActions(e.frames, e.keys)
        s == SelectSeq(a, LAMBDA x : x.c = c /\ x.press = press)
    IN  [i \in DOMAIN s |-> s[i].t]
Clauses(e) ==
    IF e.exc # "" THEN [ no_exc |-> FALSE ]
    ELSE CASE e.op = "actions" -> [ as_transcribed |-> SameBag(e.out, CodeActions(e.frames, e.keys)),
                                    as_documented  |-> SameBag(e.out, DocActions(e.frames, e.keys)) ]
           [] e.op = "errors" ->
                [ rows |-> Len(e.got) = Len(e.notes),
                  nearest |-> Len(e.got) = Len(e.notes) =>
                      \A n \in DOMAIN e.notes :
                          \E g \in DOMAIN e.got :
                              /\ e.got[g].t = e.notes[n].t /\ e.got[g].c = e.notes[n].c /\ e.got[g].cat = e.notes[n].cat
                              /\ e.got[g].err = NearestError(e.notes[n].t, RepTimes(e, e.notes[n].c, e.notes[n].cat # "Hold Tail")) ]

Failing(e) == LET c == Clauses(e) IN { k \in DOMAIN c : ~c[k] }
Init == l = 1 /\ nbad = 0
Next == /\ l <= Len(TLog)
        /\ LET f == Failing(TLog[l]) IN
             /\ (f # {} => PrintT(ToJson([id |-> TLog[l].id, failing |-> f])))
             /\ nbad' = nbad + (IF f = {} THEN 0 ELSE 1)
        /\ l' = l + 1
Spec == Init /\ [][Next]_<<l, nbad>>
Done == (l = Len(TLog) + 1) => PrintT(ToJson([done |-> l - 1, bad |-> nbad]))
=============================================================================
