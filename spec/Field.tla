------------------------------- MODULE Field -------------------------------
(***************************************************************************)
(* EXTENSION beyond the listed properties: the geometry of PlayField        *)
(* (reamber/algorithms/playField): which pixels of the image a chart's     *)
(* notes occupy.  Times in ms, all integers; a configuration is            *)
(*   cfg = [dpp (ms per pixel), nw (note width), hh (hit height),          *)
(*          lh (hold head/tail height), clw (column line width),           *)
(*          sl, el (lead before the first / after the last note), pad]     *)
(* and a note is [t, c, n] (n = 0: hit, n > 0: hold of that length).       *)
(* The image grows upwards: later notes are nearer to y = 0.               *)
(***************************************************************************)
EXTENDS Integers, Sequences, FiniteSets

Range(s) == { s[i] : i \in DOMAIN s }
MinOf(S) == CHOOSE x \in S : \A y \in S : x <= y
MaxOf(S) == CHOOSE x \in S : \A y \in S : y <= x

Keys(notes) == MaxOf({ n.c : n \in Range(notes) }) + 1
Start(notes, cfg) == MinOf({ n.t : n \in Range(notes) }) - cfg.sl
(* (the end is taken from the last START time: a hold's tail is not looked at) *)
End(notes, cfg) == MaxOf({ n.t : n \in Range(notes) }) + cfg.el
CanvasH(notes, cfg) == (End(notes, cfg) - Start(notes, cfg)) \div cfg.dpp
CanvasW(notes, cfg) == cfg.nw * Keys(notes) + cfg.clw * (Keys(notes) - 1) + cfg.pad

(* get_pos(offset, column) *)
PosX(cfg, c) == c * (cfg.nw + cfg.clw)
PosY(notes, cfg, t) == CanvasH(notes, cfg) - ((t - Start(notes, cfg)) \div cfg.dpp) - cfg.hh

Box(x0, y0, w, h) == [x0 |-> x0, y0 |-> y0, w |-> w, h |-> h]
HitBox(notes, cfg, n) == Box(PosX(cfg, n.c), PosY(notes, cfg, n.t) - cfg.hh, cfg.nw, cfg.hh)
HeadBox(notes, cfg, n) == Box(PosX(cfg, n.c), PosY(notes, cfg, n.t) - cfg.lh, cfg.nw, cfg.lh)
TailBox(notes, cfg, n) == Box(PosX(cfg, n.c), PosY(notes, cfg, n.t + n.n) - cfg.lh, cfg.nw, cfg.lh)
BodyH(cfg, n) == (n.n \div cfg.dpp) - cfg.lh + 2                 \* HOLD_RESIZE_BUFFER = 2; not drawn when <= 0
BodyBox(notes, cfg, n) == Box(PosX(cfg, n.c), PosY(notes, cfg, n.t + n.n), cfg.nw, BodyH(cfg, n))
Boxes(notes, cfg, n) ==
    IF n.n = 0 THEN { HitBox(notes, cfg, n) }
    ELSE { HeadBox(notes, cfg, n), TailBox(notes, cfg, n) } \cup (IF BodyH(cfg, n) > 0 THEN { BodyBox(notes, cfg, n) } ELSE {})

InBox(x, y, b) == x >= b.x0 /\ x < b.x0 + b.w /\ y >= b.y0 /\ y < b.y0 + b.h
OnCanvas(notes, cfg, x, y) == x >= 0 /\ x < CanvasW(notes, cfg) /\ y >= 0 /\ y < CanvasH(notes, cfg)
Pixels(notes, cfg, b) == { <<x, y>> \in (b.x0..(b.x0 + b.w - 1)) \X (b.y0..(b.y0 + b.h - 1)) : OnCanvas(notes, cfg, x, y) }
(* export_fold(max_height, stage_line_width): the tall image cut from the bottom into stages of max_height rows, laid side *)
(* by side with a separator line: stage i shows rows H - max(i+1) .. H - max*i - 1 of the tall image (rows above the top   *)
(* of the image are blank) at x-offset i * (W + line).                                                                     *)
FoldStages(H, mx) == H \div mx + 1
FoldW(W, H, mx, line) == FoldStages(H, mx) * W + (FoldStages(H, mx) - 1) * line
(* the tall-image pixel shown at (x, y) of the folded image, or <<>> on a separator / blank part *)
FoldSource(W, H, mx, line, x, y) ==
    LET i == x \div (W + line)
        xx == x % (W + line)
        yy == H - mx * (i + 1) + y IN
    IF xx >= W \/ yy < 0 \/ yy >= H THEN <<>> ELSE <<xx, yy>>
(* PFDrawBeatLines(divisions): one horizontal line per 1/d beat.  The chart has one tempo point at the first note with a     *)
(* beat length of bl ms (d divides bl); the lines of division d stand at first + k * bl/d for every k with                 *)
(* k * bl/d < last - first (BpmList.snap_offsets: sections are end-exclusive, `last` is the last START time); a line is    *)
(* the row get_pos(t) from x = 0 to the right edge of the last column (clipped to the canvas).  Coarser divisions are      *)
(* drawn last, so a row shows the colour of the smallest division that has a line on it.                                   *)
FirstT(notes) == MinOf({ n.t : n \in Range(notes) })
LastT(notes) == MaxOf({ n.t : n \in Range(notes) })
LineTimes(notes, bl, d) ==
    LET step == bl \div d  span == LastT(notes) - FirstT(notes) IN
    { FirstT(notes) + k * step : k \in { j \in 0..(span \div step) : j * step < span } }
LineRow(notes, cfg, t) == PosY(notes, cfg, t)
LineRows(notes, cfg, bl, d) == { LineRow(notes, cfg, t) : t \in LineTimes(notes, bl, d) }
VisibleRows(notes, cfg, bl, divs) == { y \in UNION { LineRows(notes, cfg, bl, d) : d \in divs } : y >= 0 /\ y < CanvasH(notes, cfg) }
LineXMax(notes, cfg) == LET r == Keys(notes) * (cfg.nw + cfg.clw)  w == CanvasW(notes, cfg) IN IF r < w THEN r ELSE w - 1
RowDivision(notes, cfg, bl, divs, y) == MinOf({ d \in divs : y \in LineRows(notes, cfg, bl, d) })
(* PFDrawColumnLines: separators between the columns.  Column c occupies x in c(nw+clw) .. c(nw+clw)+nw-1, so the gap       *)
(* before column k (k = 1 .. keys-1) is x in k(nw+clw)-clw .. k(nw+clw)-1: "separating columns of notes" means the          *)
(* separators fill the gaps and never lie on a note's pixels.  Vertically the code draws from the row of the last start    *)
(* time down to the row of time 0 (int() truncates towards zero), clipped to the canvas; that extent is specified as built. *)
Trunc(a, b) == IF a >= 0 THEN a \div b ELSE -((-a) \div b)
GapXs(notes, cfg) == UNION { (k * (cfg.nw + cfg.clw) - cfg.clw)..(k * (cfg.nw + cfg.clw) - 1) : k \in 1..(Keys(notes) - 1) }
(* NAMED DEVIATION: where the code draws them (x_offset = w - 1 for w in 0..clw-1): equal to the gaps for clw <= 1, shifted   *)
(* right by clw - 1 otherwise                                                                                              *)
CodedSepXs(notes, cfg) == UNION { (k * (cfg.nw + cfg.clw) - 1)..(k * (cfg.nw + cfg.clw) + cfg.clw - 2) : k \in 1..(Keys(notes) - 1) }
SepRowLast(notes, cfg) == PosY(notes, cfg, LastT(notes))
SepRowZero(notes, cfg) == CanvasH(notes, cfg) - Trunc(0 - Start(notes, cfg), cfg.dpp) - cfg.hh
SepRows(notes, cfg) ==
    LET a == SepRowLast(notes, cfg)  b == SepRowZero(notes, cfg)
        lo == IF a < b THEN a ELSE b  hi == IF a < b THEN b ELSE a IN
    { y \in lo..hi : y >= 0 /\ y < CanvasH(notes, cfg) }
SepPixels(notes, cfg) == { <<x, y>> \in GapXs(notes, cfg) \X SepRows(notes, cfg) : OnCanvas(notes, cfg, x, y) }
Inside(notes, cfg, b) == b.x0 >= 0 /\ b.y0 >= 0 /\ b.x0 + b.w <= CanvasW(notes, cfg) /\ b.y0 + b.h <= CanvasH(notes, cfg)
=============================================================================
