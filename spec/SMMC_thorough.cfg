SPECIFICATION Spec
CONSTANTS
  Types = {"dance-single", "dance-threepanel", "dance-solo", "kb7-single", "dance-double"}
  RowChoices <- RowsT
  MaxObj = 2
  MaxBpm = 3
  PosSet = {0, 1, 3, 5, 7, 11, 13, 19, 23, 31}
  TailGap = {1, 2, 4, 9}
  OffSet <- OffsAll
  BlSet = {50000, 25000, 37500}
  EmitMod = 101
  Emit = TRUE
INVARIANT DenotationTotal
INVARIANT TimesIncrease
CONSTRAINT EmitScn
