SPECIFICATION Spec
CONSTANTS
  Types = {"dance-single", "dance-threepanel", "dance-solo", "kb7-single", "dance-double"}
  RowChoices <- RowsT
  MaxObj = 2
  MaxBpm = 3
  PosSet = {0, 1, 5, 11, 19, 31}
  TailGap = {1, 4, 9}
  OffSet <- OffsAll
  BlSet = {50000, 37500}
  EmitMod = 61
  Emit = TRUE
INVARIANT DenotationTotal
INVARIANT TimesIncrease
CONSTRAINT EmitScn
