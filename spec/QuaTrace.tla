------------------------------ MODULE QuaTrace ------------------------------
(* Trace validator for C06. *)
EXTENDS QuaFmt, TLC, Json, IOUtils
VARIABLES l, nbad
TLog == ndJsonDeserialize(IOEnv.TRACE_FILE)

Clauses(e) ==
    IF e.exc # "" THEN [ no_exc |-> FALSE ]
    ELSE CASE e.op = "read"  -> DenotesClauses(e.doc, e.chart, 0)
           [] e.op = "write" -> LET d == DenotesClauses(e.doc, e.chart, 1000)  s == SchemaClauses(e.doc) IN
                                [ k \in DOMAIN d \cup DOMAIN s |-> IF k \in DOMAIN d THEN d[k] ELSE s[k] ]
           [] e.op = "generations" -> [ no_drift |-> \A i \in DOMAIN e.gens : e.gens[i] = e.gens[1] ]

Failing(e) == LET c == Clauses(e) IN { k \in DOMAIN c : ~c[k] }
Init == l = 1 /\ nbad = 0
Next == /\ l <= Len(TLog)
        /\ LET f == Failing(TLog[l]) IN
             /\ (f # {} => PrintT(ToJson([id |-> TLog[l].id, failing |-> f])))
             /\ nbad' = nbad + (IF f = {} THEN 0 ELSE 1)
        /\ l' = l + 1
Spec == Init /\ [][Next]_<<l, nbad>>
Done == (l = Len(TLog) + 1) => PrintT(ToJson([done |-> l - 1, bad |-> nbad]))
=============================================================================
