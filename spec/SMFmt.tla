------------------------------- MODULE SMFmt -------------------------------
(***************************************************************************)
(* C02 / C03: what a StepMania (.sm) text denotes.  The text is tokenised   *)
(* outside (harness/sm_text.py); this module interprets the tokens.         *)
(*                                                                         *)
(* Time unit: 1 tick = 10 microseconds (ms x100).                          *)
(* file.off    time of beat 0 in ticks (= -#OFFSET)                        *)
(* file.bpms   seq of [p (beat x4800), bl (ticks per beat)] sorted by p    *)
(* file.charts seq of [type, desc, diff, meter, radar, keys, measures]     *)
(*             measures: seq of seq of rows, a row is a seq of 1-char strs *)
(* A chart projection: [hits, holds, rolls, mines, lifts, fakes, keysounds, *)
(*             bpms, type, desc, diff, meter, radar]; notes [t, c], long    *)
(*             notes [t, c, n], tempo points [t, bl]                        *)
(***************************************************************************)
EXTENDS BeatTime

(* row r (0-based) of a measure m (0-based) with n rows is at beat 4m + 4r/n *)
RowTicks(bpms, off, m, r, n) == BeatToTicks(bpms, off, 4 * m + (4 * r) \div n, (4 * r) % n, n)
RowBl(bpms, m, r, n) == BlAt(bpms, 4 * m + (4 * r) \div n, (4 * r) % n, n)

(* the non-"0" cells of a chart are given sparsely by the lexer, in file order:                  *)
(*   ch.cells : seq of [m, r, c (all 1-based), n |-> rows of that measure, s |-> symbol]          *)
(*   f.stops  : seq of [p, len] (empty when the file has no #STOPS)                                   *)
(*   ch.rows  : seq of row counts per measure;  ch.widths / ch.symbols : distinct row widths / symbols used *)
Cells(ch) == DOMAIN ch.cells
Sym(ch, x) == ch.cells[x].s
(* EXTENSION (#STOPS, outside the listed properties): a stop [p |-> beat x4800, len |-> ticks] pauses the chart at   *)
(* its beat; everything on a later beat is delayed by its length, objects on the stop's own beat are not.           *)
StopShift(f, m, r, n) ==
    LET S == { k \in DOMAIN f.stops : f.stops[k].p * n < (4 * m * n + 4 * r) * 4800 }
        RECURSIVE Sum(_)
        Sum(T) == IF T = {} THEN 0 ELSE LET k == CHOOSE k \in T : TRUE IN f.stops[k].len + Sum(T \ {k})
    IN  Sum(S)
CellTicks(f, ch, x) == RowTicks(f.bpms, f.off, ch.cells[x].m - 1, ch.cells[x].r - 1, ch.cells[x].n)
                       + StopShift(f, ch.cells[x].m - 1, ch.cells[x].r - 1, ch.cells[x].n)
CellBl(f, ch, x) == RowBl(f.bpms, ch.cells[x].m - 1, ch.cells[x].r - 1, ch.cells[x].n)

Simple(f, ch, s) == { [t |-> CellTicks(f, ch, x), c |-> ch.cells[x].c - 1, bl |-> CellBl(f, ch, x), id |-> x] : x \in { x \in Cells(ch) : Sym(ch, x) = s } }

(* a tail "3" closes the open hold of its column, else the open roll: i.e. the latest unclosed head before it *)
Heads(ch, c) == { x \in Cells(ch) : ch.cells[x].c = c /\ Sym(ch, x) \in {"2", "4"} }
Tails(ch, c) == { x \in Cells(ch) : ch.cells[x].c = c /\ Sym(ch, x) = "3" }
(* the code keeps one stack per kind and closes the hold stack's top first when it is open *)
RECURSIVE Pair(_, _, _, _, _)
(* evs: events of one column in file order; oh / orl: index of the open hold / roll head, 0 = none *)
Pair(evs, oh, orl, acc, ch) ==
    IF evs = <<>> THEN [pairs |-> acc, dangling |-> (oh # 0 \/ orl # 0), orphan |-> FALSE]
    ELSE LET x == Head(evs) s == Sym(ch, x) IN
         IF s = "2" THEN Pair(Tail(evs), x, orl, acc, ch)
         ELSE IF s = "4" THEN Pair(Tail(evs), oh, x, acc, ch)
         ELSE IF oh # 0 THEN Pair(Tail(evs), 0, orl, acc \cup { <<"hold", oh, x>> }, ch)
         ELSE IF orl # 0 THEN Pair(Tail(evs), oh, 0, acc \cup { <<"roll", orl, x>> }, ch)
         ELSE [pairs |-> acc, dangling |-> FALSE, orphan |-> TRUE]
RECURSIVE Ordered(_)
Ordered(S) == IF S = {} THEN <<>> ELSE LET x == CHOOSE x \in S : \A y \in S : x <= y IN <<x>> \o Ordered(S \ {x})
ColPairs(ch, c) == Pair(Ordered(Heads(ch, c) \cup Tails(ch, c)), 0, 0, {}, ch)
Long(f, ch, kind) ==
    UNION { { [t |-> CellTicks(f, ch, p[2]), c |-> c - 1, n |-> CellTicks(f, ch, p[3]) - CellTicks(f, ch, p[2]),
               bl |-> Max2(CellBl(f, ch, p[2]), CellBl(f, ch, p[3])), id |-> p[2]] : p \in { p \in ColPairs(ch, c).pairs : p[1] = kind } }
            : c \in 1..ch.keys }
Balanced(ch) == \A c \in 1..ch.keys : ~ColPairs(ch, c).dangling /\ ~ColPairs(ch, c).orphan

(* sets of denoted objects against a projected list, each object within tol(obj) ticks: *)
(* objects of one column are far apart compared with tol, so "nearest" matching is unique *)
NotesMatch(D, lst, tol(_)) ==
    /\ Cardinality(D) = Len(lst)
    /\ \A d \in D : \E i \in DOMAIN lst : lst[i].c = d.c /\ Abs(lst[i].t - d.t) <= tol(d)
    /\ \A i \in DOMAIN lst : \E d \in D : lst[i].c = d.c /\ Abs(lst[i].t - d.t) <= tol(d)
LongMatch(D, lst, tol(_)) ==
    /\ Cardinality(D) = Len(lst)
    /\ \A d \in D : \E i \in DOMAIN lst : lst[i].c = d.c /\ Abs(lst[i].t - d.t) <= tol(d)
                                          /\ Abs((lst[i].t + lst[i].n) - (d.t + d.n)) <= tol(d)
    /\ \A i \in DOMAIN lst : \E d \in D : lst[i].c = d.c /\ Abs(lst[i].t - d.t) <= tol(d)
                                          /\ Abs((lst[i].t + lst[i].n) - (d.t + d.n)) <= tol(d)

ChartClauses(f, ch, pr, tol(_)) ==
    [ hits      |-> NotesMatch(Simple(f, ch, "1"), pr.hits, tol),
      mines     |-> NotesMatch(Simple(f, ch, "M"), pr.mines, tol),
      lifts     |-> NotesMatch(Simple(f, ch, "L"), pr.lifts, tol),
      fakes     |-> NotesMatch(Simple(f, ch, "F"), pr.fakes, tol),
      keysounds |-> NotesMatch(Simple(f, ch, "K"), pr.keysounds, tol),
      holds     |-> Balanced(ch) /\ LongMatch(Long(f, ch, "hold"), pr.holds, tol),
      rolls     |-> Balanced(ch) /\ LongMatch(Long(f, ch, "roll"), pr.rolls, tol),
      header    |-> /\ pr.type = ch.type /\ pr.desc = ch.desc /\ pr.diff = ch.diff
                    /\ pr.meter = ch.meter /\ pr.radar = ch.radar ]

(* every tempo change of the file is a tempo point of the chart at that time; the chart's list is the *)
(* reseated one (C11), so only the last change is required to carry the file's tempo value           *)
TempoPresent(f, pr, tol) ==
    \A k \in DOMAIN f.bpms : \E i \in DOMAIN pr.bpms :
        /\ Abs(pr.bpms[i].t - TStart(f.bpms, f.off, k)) <= tol
        /\ (k = Len(f.bpms) => Abs(pr.bpms[i].bl - f.bpms[k].bl) <= 1)

(* ---- written files ---- *)
Alphabet == {"0", "1", "2", "3", "4", "M", "L", "F", "K"}
HeaderTags == <<"TITLE", "SUBTITLE", "ARTIST", "TITLETRANSLIT", "SUBTITLETRANSLIT", "ARTISTTRANSLIT", "GENRE", "CREDIT",
                "BANNER", "BACKGROUND", "LYRICSPATH", "CDTITLE", "MUSIC", "OFFSET", "BPMS", "STOPS", "SAMPLESTART",
                "SAMPLELENGTH", "DISPLAYBPM", "SELECTABLE", "BGCHANGES", "FGCHANGES">>
WellFormed(f) ==
    [ tokens_are_tags |-> f.junk = 0,
      header_tags |-> \A i \in DOMAIN HeaderTags :
                         Cardinality({ j \in DOMAIN f.hdr : f.hdr[j].tag = HeaderTags[i] }) = 1,
      notes_fields |-> \A i \in DOMAIN f.charts : f.charts[i].nfields = 6 /\ f.charts[i].keys > 0,
      rows_per_measure |-> \A i \in DOMAIN f.charts : \A m \in DOMAIN f.charts[i].rows :
                              f.charts[i].rows[m] > 0 /\ f.charts[i].rows[m] % 4 = 0,
      row_width |-> \A i \in DOMAIN f.charts :
                       /\ \A w \in DOMAIN f.charts[i].widths : f.charts[i].widths[w] = f.charts[i].keys
                       /\ \A q \in DOMAIN f.charts[i].symbols : f.charts[i].symbols[q] \in Alphabet,
      balanced |-> \A i \in DOMAIN f.charts : Balanced(f.charts[i]) ]

(* all tempo changes of the file on measure lines *)
OnMeasureLines(f) == \A k \in DOMAIN f.bpms : f.bpms[k].p % 19200 = 0
=============================================================================
