SPECIFICATION Spec
CONSTANTS
  MaxObj = 4
  ShallowRate = FALSE
INVARIANT InputsStable
INVARIANT CopiesDisjoint
