SPECIFICATION Spec
CONSTANTS
  Offs <- OffsQ
  Lens = {0, 500}
  MaxRows = 2
  Depth = 1
  Cuts <- CutsQ
  Emit = TRUE
INVARIANT PartitionLaw
INVARIANT BetweenLaw
INVARIANT SortLaw
INVARIANT SliceLaw
CONSTRAINT EmitScn
