---------------------------- MODULE PatternTrace ----------------------------
(* Trace validator for C20. *)
EXTENDS Pattern, TLC, Json, IOUtils
VARIABLES l, nbad
TLog == ndJsonDeserialize(IOEnv.TRACE_FILE)
SeqSet(s) == { s[i] : i \in DOMAIN s }
Flt(f) == IF f.on THEN [on |-> TRUE, base |-> SeqSet(f.base), keys |-> f.keys, opts |-> SeqSet(f.opts), exclude |-> f.exclude]
          ELSE [on |-> FALSE]

Clauses(e) ==
    IF e.exc # "" THEN [ no_exc |-> FALSE ]
    ELSE CASE e.op = "group" -> GroupClauses(e.notes, e.groups, e.v, e.h, e.jack)
           [] e.op = "combos" -> CombosClauses(e.groups, e.n, Flt(e.chord), Flt(e.combo), Flt(e.type), e.out)

Failing(e) == LET c == Clauses(e) IN { k \in DOMAIN c : ~c[k] }
Init == l = 1 /\ nbad = 0
Next == /\ l <= Len(TLog)
        /\ LET f == Failing(TLog[l]) IN
             /\ (f # {} => PrintT(ToJson([id |-> TLog[l].id, failing |-> f])))
             /\ nbad' = nbad + (IF f = {} THEN 0 ELSE 1)
        /\ l' = l + 1
Spec == Init /\ [][Next]_<<l, nbad>>
Done == (l = Len(TLog) + 1) => PrintT(ToJson([done |-> l - 1, bad |-> nbad]))
=============================================================================
