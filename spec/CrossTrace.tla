----------------------------- MODULE CrossTrace -----------------------------
(***************************************************************************)
(* C09: read -> convert -> write.  No new semantics: the source tokens are  *)
(* interpreted by the source format's spec, the written target's tokens by  *)
(* the target format's spec, both reduced to a TIMELINE                     *)
(*    [notes |-> set of [t, c, n], tempo |-> set of [t, bl]]   (ticks of 10 us) *)
(* and compared at the coarser of the two formats' resolutions.             *)
(***************************************************************************)
EXTENDS Integers, Sequences, FiniteSets, TLC, Json, IOUtils

Osu == INSTANCE OsuFmt
Qua == INSTANCE QuaFmt
SM  == INSTANCE SMFmt
BMS == INSTANCE BMSFmt
OJN == INSTANCE OJNFmt

VARIABLES l, nbad
TLog == ndJsonDeserialize(IOEnv.TRACE_FILE)
AbsV(x) == IF x < 0 THEN -x ELSE x

OsuTL(f) ==
    [ notes |-> { [t |-> p[2].t \div 10, c |-> p[2].c, n |-> 0] : p \in Osu!DenHits(f) } \cup
                { [t |-> p[2].t \div 10, c |-> p[2].c, n |-> p[2].n \div 10] : p \in Osu!DenHolds(f) },
      tempo |-> { [t |-> f.tps[i].t \div 10, bl |-> f.tps[i].code] : i \in Osu!Tempo(f) } ]
QuaTL(d) ==
    [ notes |-> { [t |-> Qua!DenHits(d)[i].t \div 10, c |-> Qua!DenHits(d)[i].c, n |-> 0] : i \in DOMAIN Qua!DenHits(d) } \cup
                { [t |-> Qua!DenHolds(d)[i].t \div 10, c |-> Qua!DenHolds(d)[i].c, n |-> Qua!DenHolds(d)[i].n \div 10] : i \in DOMAIN Qua!DenHolds(d) },
      tempo |-> { [t |-> Qua!DenBpms(d)[i].t \div 10, bl |-> 600000000 \div Qua!DenBpms(d)[i].bpm] : i \in DOMAIN Qua!DenBpms(d) } ]
(* the order of the beat=bpm pairs inside #BPMS is presentation (as in SMTrace): the timeline is the pairs sorted by beat *)
SMTL(f0, k) ==
    LET f == [f0 EXCEPT !.bpms = SortSeq(f0.bpms, LAMBDA a, b : a.p < b.p)]
        ch == f.charts[k] IN
    [ notes |-> { [t |-> x.t, c |-> x.c, n |-> 0] : x \in SM!Simple(f, ch, "1") } \cup
                { [t |-> x.t, c |-> x.c, n |-> x.n] : x \in SM!Long(f, ch, "hold") },
      tempo |-> { [t |-> SM!TStart(f.bpms, f.off, j), bl |-> f.bpms[j].bl] : j \in DOMAIN f.bpms } ]
BMSTL(f, name) ==
    LET lay == BMS!Layout(name)  tl == BMS!TempoList(f) IN
    [ notes |-> { [t |-> x.t, c |-> x.c, n |-> 0] : x \in BMS!DenHits(f, lay) } \cup
                { [t |-> x.t, c |-> x.c, n |-> x.n] : x \in BMS!DenHolds(f, lay) },
      tempo |-> { [t |-> BMS!TStart(tl, 0, j), bl |-> tl[j].bl] : j \in DOMAIN tl } ]
OJNTL(f, d) ==
    LET lvl == f.lvls[d]  tl == OJN!TempoList(f, lvl) IN
    [ notes |-> { [t |-> x.t, c |-> x.c, n |-> 0] : x \in OJN!DenHits(f, lvl) } \cup
                { [t |-> x.t, c |-> x.c, n |-> x.n] : x \in OJN!DenHolds(f, lvl) },
      tempo |-> { [t |-> OJN!TStart(tl, 0, j), bl |-> tl[j].bl] : j \in DOMAIN tl } ]

TL(game, tok, k, layout) ==
    CASE game = "osu" -> OsuTL(tok) [] game = "qua" -> QuaTL(tok) [] game = "sm" -> SMTL(tok, k)
      [] game = "bms" -> BMSTL(tok, layout) [] game = "o2j" -> OJNTL(tok, k)

MaxBl(tl) == LET S == { x.bl : x \in tl.tempo } IN IF S = {} THEN 50000 ELSE CHOOSE b \in S : \A y \in S : y <= b
(* the coarser resolution: 1 ms when osu / Quaver is involved, the written grid for StepMania (1/96 beat) and BMS (1/192 beat) *)
Res(e, tl) == 10 + (IF e.src_game \in {"osu", "qua"} \/ e.tgt_game \in {"osu", "qua"} THEN 100 ELSE 0)
                 + (IF e.tgt_game = "sm" THEN MaxBl(tl) \div 96 ELSE IF e.tgt_game = "bms" THEN MaxBl(tl) \div 192 ELSE 0)

NotesEq(a, b, shift, res) ==
    /\ Cardinality(a) = Cardinality(b)
    /\ \A x \in a : \E y \in b : y.c = x.c + shift /\ AbsV(y.t - x.t) <= res /\ AbsV(y.t + y.n - x.t - x.n) <= res /\ (x.n = 0) = (y.n = 0)
    /\ \A y \in b : \E x \in a : y.c = x.c + shift /\ AbsV(y.t - x.t) <= res
(* every source tempo point is a target tempo point; its value is compared for the last one (the running tempo), and for  *)
(* every one when neither end re-seats tempo changes onto measure lines (osu, Quaver, O2Jam source -> osu, Quaver)         *)
TempoKept(a, b, res, strict) ==
    /\ \A x \in a : \E y \in b : AbsV(y.t - x.t) <= res /\ ((strict \/ \A z \in a : z.t <= x.t) => AbsV(y.bl - x.bl) <= 3)
    \* and, where nothing is re-seated, the target has no tempo point of its own
    /\ strict => \A y \in b : \E x \in a : AbsV(y.t - x.t) <= res /\ AbsV(y.bl - x.bl) <= 3

WellFormedTgt(e, k) ==
    CASE e.tgt_game = "osu" -> LET w == Osu!WellFormed(e.tgt[k]) IN \A c \in DOMAIN w : w[c]
      [] e.tgt_game = "sm"  -> LET w == SM!WellFormed(e.tgt[k]) IN \A c \in DOMAIN w : w[c]
      [] e.tgt_game = "qua" -> LET w == Qua!SchemaClauses(e.tgt[k]) IN \A c \in DOMAIN w : w[c]
      [] e.tgt_game = "bms" -> e.tgt[k].junk = 0 /\ e.tgt[k].bad_lines = 0 /\ BMS!Paired(e.tgt[k], BMS!Layout(e.tgt_layout))

Clauses(e) ==
    IF e.exc # "" THEN [ no_exc |-> FALSE ]
    ELSE LET n == e.nsrc IN
    [ one_file_per_chart |-> Len(e.tgt) = n,
      valid_target |-> \A k \in DOMAIN e.tgt : WellFormedTgt(e, k),
      objects |-> Len(e.tgt) = n => \A k \in 1..n :
                     LET s == TL(e.src_game, e.src, IF e.src_game \in {"sm", "o2j"} THEN k ELSE 1, e.src_layout)
                         t == TL(e.tgt_game, e.tgt[k], 1, e.tgt_layout)
                     IN NotesEq(s.notes, t.notes, e.shift, Res(e, s)),
      tempo |-> Len(e.tgt) = n => \A k \in 1..n :
                     LET s == TL(e.src_game, e.src, IF e.src_game \in {"sm", "o2j"} THEN k ELSE 1, e.src_layout)
                         t == TL(e.tgt_game, e.tgt[k], 1, e.tgt_layout)
                     IN TempoKept(s.tempo, t.tempo, Res(e, s), e.src_game \in {"osu", "qua", "o2j"} /\ e.tgt_game \in {"osu", "qua"}) ]

Failing(e) == LET c == Clauses(e) IN { k \in DOMAIN c : ~c[k] }
Init == l = 1 /\ nbad = 0
Next == /\ l <= Len(TLog)
        /\ LET f == Failing(TLog[l]) IN
             /\ (f # {} => PrintT(ToJson([id |-> TLog[l].id, failing |-> f])))
             /\ nbad' = nbad + (IF f = {} THEN 0 ELSE 1)
        /\ l' = l + 1
Spec == Init /\ [][Next]_<<l, nbad>>
Done == (l = Len(TLog) + 1) => PrintT(ToJson([done |-> l - 1, bad |-> nbad]))
=============================================================================
