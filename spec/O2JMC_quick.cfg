SPECIFICATION Spec
CONSTANTS
  MaxNote = 2
  MaxTempo = 2
  Ns = {1, 2, 3}
  MaxM = 1
  Emit = TRUE
  EmitMod = 7
INVARIANT SweepRefinesRef
INVARIANT DenotationTotal
CONSTRAINT EmitScn
