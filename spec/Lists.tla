------------------------------- MODULE Lists -------------------------------
(***************************************************************************)
(* Timed lists as plain ordered sequences of rows (C16), and the frame     *)
(* condition on their inputs (C14).                                        *)
(*                                                                         *)
(* A row is a record [o |-> offset in ticks, n |-> length in ticks (0 for  *)
(* lists without a length), x |-> <<every other declared field, as         *)
(* strings>>].  A list value is a sequence of rows.                        *)
(***************************************************************************)
EXTENDS Integers, Sequences, FiniteSets

Range(s) == { s[i] : i \in DOMAIN s }
Max2(a, b) == IF a > b THEN a ELSE b
Min2(a, b) == IF a < b THEN a ELSE b

RECURSIVE SelectIdx(_, _, _)
(* subsequence of s at the positions i (ascending) for which P[i] holds *)
SelectIdx(s, P, i) == IF i > Len(s) THEN <<>>
                      ELSE (IF P[i] THEN <<s[i]>> ELSE <<>>) \o SelectIdx(s, P, i + 1)
Filter(s, P) == SelectIdx(s, P, 1)

(* s2 is a permutation of s1 *)
IsPerm(s1, s2) ==
    /\ Len(s1) = Len(s2)
    /\ \A r \in Range(s1) \cup Range(s2) :
          Cardinality({ i \in DOMAIN s1 : s1[i] = r }) = Cardinality({ i \in DOMAIN s2 : s2[i] = r })

SortedAsc(s)  == \A i \in 1..Len(s)-1 : s[i].o <= s[i+1].o
SortedDesc(s) == \A i \in 1..Len(s)-1 : s[i].o >= s[i+1].o

(* python index / slice normalisation *)
NormIdx(i, n) == IF i < 0 THEN i + n ELSE i
NormBound(i, n) == IF i < 0 THEN Max2(i + n, 0) ELSE Min2(i, n)
PySlice(s, a, b) ==
    LET lo == NormBound(a, Len(s))  hi == NormBound(b, Len(s))
    IN  IF lo >= hi THEN <<>> ELSE SubSeq(s, lo + 1, hi)

MinOf(S) == CHOOSE x \in S : \A y \in S : x <= y
MaxOf(S) == CHOOSE x \in S : \A y \in S : x >= y

----------------------------------------------------------------------------
(* the filters; hold = TRUE for HoldList semantics (head/tail variants) *)
AfterRef(s, t, inc, tail) ==
    Filter(s, [i \in DOMAIN s |->
        LET v == s[i].o + (IF tail THEN s[i].n ELSE 0) IN IF inc THEN v >= t ELSE v > t])
BeforeRef(s, t, inc, head) ==
    Filter(s, [i \in DOMAIN s |->
        LET v == s[i].o + (IF head THEN 0 ELSE s[i].n) IN IF inc THEN v <= t ELSE v < t])
BetweenRef(s, lo, hi, incLo, incHi, head, tail) ==
    BeforeRef(AfterRef(s, lo, incLo, tail), hi, incHi, head)

SortedRef(s, rev, out) == IsPerm(s, out) /\ (IF rev THEN SortedDesc(out) ELSE SortedAsc(out))
AppendRef(s, add, sort, out) ==
    IF sort THEN SortedRef(s \o add, FALSE, out) ELSE out = s \o add

FirstOffset(s) == MinOf({ s[i].o : i \in DOMAIN s })
LastOffset(s, hold) == MaxOf({ s[i].o + (IF hold THEN s[i].n ELSE 0) : i \in DOMAIN s })
=============================================================================
