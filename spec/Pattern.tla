------------------------------ MODULE Pattern ------------------------------
(***************************************************************************)
(* C20: pattern grouping and combinations.                                 *)
(* A note is [t, c, k] with k in {"hit", "hold", "tail"}.                  *)
(* v >= 0 vertical window; h = -1 means "no horizontal window".            *)
(***************************************************************************)
EXTENDS Integers, Sequences, FiniteSets

Range(s) == { s[i] : i \in DOMAIN s }
Abs(x) == IF x < 0 THEN -x ELSE x
SameBag(s1, s2) ==
    /\ Len(s1) = Len(s2)
    /\ \A r \in Range(s1) \cup Range(s2) :
          Cardinality({ i \in DOMAIN s1 : s1[i] = r }) = Cardinality({ i \in DOMAIN s2 : s2[i] = r })
RECURSIVE Flatten(_)
Flatten(ss) == IF ss = <<>> THEN <<>> ELSE Head(ss) \o Flatten(Tail(ss))

GroupClauses(notes, groups, v, h, avoidJack) ==
    [ partition |-> SameBag(notes, Flatten(groups)) /\ \A g \in DOMAIN groups : Len(groups[g]) >= 1,
      vertical  |-> \A g \in DOMAIN groups : \A i \in DOMAIN groups[g] :
                       groups[g][i].t >= groups[g][1].t /\ groups[g][i].t <= groups[g][1].t + v,
      horizontal |-> h >= 0 => \A g \in DOMAIN groups : \A i \in DOMAIN groups[g] :
                       Abs(groups[g][i].c - groups[g][1].c) <= h,
      no_jack   |-> avoidJack => \A g \in DOMAIN groups : \A i, j \in DOMAIN groups[g] :
                       i # j => groups[g][i].c # groups[g][j].c ]

----------------------------------------------------------------------------
(* filter expansions, set-theoretically.  A filter is a record                           *)
(*   [on |-> BOOLEAN, base |-> set of sequences, keys, opts |-> set of strings, exclude] *)
SeqsOver(S, n) == [1..n -> S]
Perms(s) == { p \in SeqsOver(Range(s), Len(s)) : SameBag(p, s) }
Rev(s) == [i \in DOMAIN s |-> s[Len(s) + 1 - i]]
MinOf(S) == CHOOSE x \in S : \A y \in S : x <= y
MaxOf(S) == CHOOSE x \in S : \A y \in S : y <= x

(* chord sizes: AND_HIGHER / AND_LOWER element-wise relative to each base sequence, ANY_ORDER permutations *)
ChordAllowed(f, n) ==
    LET hi == IF "AND_HIGHER" \in f.opts
              THEN UNION { { s \in SeqsOver(1..f.keys, n) : \A i \in 1..n : s[i] >= b[i] } : b \in f.base } ELSE {}
        s1 == f.base \cup hi
        lo == IF "AND_LOWER" \in f.opts
              THEN UNION { { s \in SeqsOver(1..f.keys, n) : \A i \in 1..n : s[i] <= b[i] } : b \in s1 } ELSE {}
        s2 == s1 \cup lo
    IN  IF "ANY_ORDER" \in f.opts THEN UNION { Perms(s) : s \in s2 } ELSE s2
ChordPass(f, sizes) ==
    IF ~f.on THEN TRUE ELSE (sizes \in ChordAllowed(f, Len(sizes))) # f.exclude

(* column sequences: REPEAT = every horizontal shift inside 0..keys-1, HMIRROR, VMIRROR *)
ComboAllowed(f, n) ==
    LET rep == IF "REPEAT" \in f.opts
               THEN UNION { { [i \in 1..n |-> b[i] + d] : d \in (0 - MinOf(Range(b)))..(f.keys - 1 - MaxOf(Range(b))) } : b \in f.base }
               ELSE f.base
        hm == IF "HMIRROR" \in f.opts THEN rep \cup { [i \in 1..n |-> f.keys - 1 - s[i]] : s \in rep } ELSE rep
    IN  IF "VMIRROR" \in f.opts THEN hm \cup { Rev(s) : s \in hm } ELSE hm
ComboPass(f, cols) == IF ~f.on THEN TRUE ELSE (cols \in ComboAllowed(f, Len(cols))) # f.exclude

(* type sequences; IsA(k, cls): a hold tail is not a hold, every note kind is itself *)
TypeAllowed(f, n) ==
    IF "ANY_ORDER" \in f.opts THEN UNION { Perms(s) : s \in f.base }
    ELSE IF "MIRROR" \in f.opts THEN f.base \cup { Rev(s) : s \in f.base } ELSE f.base
TypePass(f, kinds) == IF ~f.on THEN TRUE ELSE (kinds \in TypeAllowed(f, Len(kinds))) # f.exclude

(* all sequences taking one note from each of the groups gs (a sequence of groups) *)
RECURSIVE Product(_)
Product(gs) == IF gs = <<>> THEN { <<>> }
               ELSE { <<x>> \o rest : x \in Range(Head(gs)), rest \in Product(Tail(gs)) }
(* with multiplicity: positions instead of values *)
RECURSIVE ProductIx(_)
ProductIx(gs) == IF gs = <<>> THEN { <<>> }
                 ELSE { <<i>> \o rest : i \in DOMAIN Head(gs), rest \in ProductIx(Tail(gs)) }

Expected(groups, n, fch, fco, fty) ==
    { <<g, ix>> \in UNION { { <<g, ix>> : ix \in ProductIx(SubSeq(groups, g, g + n - 1)) } : g \in 1..(Len(groups) - n + 1) } :
        LET chunk == SubSeq(groups, g, g + n - 1)
            seq == [i \in 1..n |-> chunk[i][ix[i]]]
        IN  /\ ChordPass(fch, [i \in 1..n |-> Len(chunk[i])])
            /\ ComboPass(fco, [i \in 1..n |-> seq[i].c])
            /\ TypePass(fty, [i \in 1..n |-> seq[i].k]) }

CombosClauses(groups, n, fch, fco, fty, out) ==
    LET E == Expected(groups, n, fch, fco, fty)
        val(e) == [i \in 1..n |-> groups[e[1] + i - 1][e[2][i]]]
        Vals == { val(e) : e \in E } \cup Range(out)
    IN  [ none_missing |-> \A s \in Vals : Cardinality({ e \in E : val(e) = s }) <= Cardinality({ i \in DOMAIN out : out[i] = s }),
          none_extra   |-> \A s \in Vals : Cardinality({ i \in DOMAIN out : out[i] = s }) <= Cardinality({ e \in E : val(e) = s }) ]
=============================================================================
