SPECIFICATION Spec
CONSTRAINT Done
