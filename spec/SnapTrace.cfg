SPECIFICATION Spec
CONSTANTS
  G = 2
CONSTRAINT Done
