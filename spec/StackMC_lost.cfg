SPECIFICATION Spec
CONSTANTS
  Depth = 3
  FullMasks = FALSE
  Emit = FALSE
INVARIANT NoLostUpdate
