SPECIFICATION Spec
CONSTANTS
  Layouts = {"BMS", "BME", "PMS", "PMS_BME", "PMS_5B"}
  MaxObj = 3
  MaxTempo = 1
  Ds = {1, 2, 3, 4}
  MaxM = 1
  Ids = {"01", "02"}
  Emit = TRUE
  EmitMod = 29
INVARIANT DenotationTotal
INVARIANT StartsAgree
CONSTRAINT EmitScn
