SPECIFICATION Spec
CONSTRAINT Done
