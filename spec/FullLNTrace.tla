---------------------------- MODULE FullLNTrace ----------------------------
(* Trace validator for C17: one record per real full_ln call. *)
EXTENDS FullLN, TLC, Json, IOUtils
VARIABLES l, nbad
TLog == ndJsonDeserialize(IOEnv.TRACE_FILE)

Clauses(e) ==
    IF e.exc # "" THEN [ no_exc |-> FALSE ]
    ELSE LET c == FullLNClauses(e.notes, e.out, e.gap, e.thr) IN
         [ k \in DOMAIN c \cup {"other_lists_unchanged"} |->
             IF k = "other_lists_unchanged" THEN e.others_post = e.others_pre ELSE c[k] ]

Failing(e) == LET c == Clauses(e) IN { k \in DOMAIN c : ~c[k] }
Init == l = 1 /\ nbad = 0
Next == /\ l <= Len(TLog)
        /\ LET f == Failing(TLog[l]) IN
             /\ (f # {} => PrintT(ToJson([id |-> TLog[l].id, failing |-> f])))
             /\ nbad' = nbad + (IF f = {} THEN 0 ELSE 1)
        /\ l' = l + 1
Spec == Init /\ [][Next]_<<l, nbad>>
Done == (l = Len(TLog) + 1) => PrintT(ToJson([done |-> l - 1, bad |-> nbad]))
=============================================================================
