SPECIFICATION Spec
CONSTANTS
  KeysSet = {1, 4, 7, 10, 18}
  TimesSet <- TimesQ
  MaxObj = 1
  MaxTp = 1
  Wide = FALSE
  Emit = TRUE
INVARIANT WriteModel
INVARIANT ColumnsInRange
CONSTRAINT EmitScn
