SPECIFICATION Spec
CONSTANTS
  MaxNotes = 3
  Times = {0, 1, 2, 3}
  NCols = 2
  Lens = {1, 2}
  Gaps = {0, 1, 2}
  Thrs = {0, 1, 2}
  Emit = TRUE
INVARIANT ImplSatisfiesRef
CONSTRAINT EmitScn
