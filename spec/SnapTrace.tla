----------------------------- MODULE SnapTrace -----------------------------
(* Trace validator for the position-arithmetic extension: every record is one real call of        *)
(* Snap(...) / Snap + Snap / Snap - Snap / Snap < Snap / Snap.offset / find_lcm.                   *)
EXTENDS SnapArith, TLC, Json, IOUtils

VARIABLES l, nbad
TLog == ndJsonDeserialize(IOEnv.TRACE_FILE)

Out(e) == IF e.exc = "ValueError" THEN Err ELSE Pos(e.out.m, e.out.b)
Clauses(e) ==
    IF e.exc \notin {"", "ValueError"} \/ (e.exc = "ValueError" /\ e.op \notin {"norm", "sub"}) THEN [ no_exc |-> FALSE ]
    ELSE CASE e.op = "norm" -> [ as_transcribed |-> Out(e) = NormCode(e.m, e.b, e.met),
                                 as_documented  |-> Out(e) = NormDoc(e.m, e.b, e.met) ]
           [] e.op = "add"  -> [ sum |-> Out(e) = AddDoc(e.x, e.y, e.met) ]
           [] e.op = "sub"  -> [ difference |-> Out(e) = SubDoc(e.x, e.y, e.met) ]
           [] e.op = "cmp"  -> [ lt |-> e.lt = LtDoc(e.x, e.y, e.met), eq |-> e.eq = EqDoc(e.x, e.y, e.met),
                                 total_order |-> (e.lt \/ e.eq \/ e.gt) /\ ~(e.lt /\ e.gt) ]
           [] e.op = "offset" -> [ offset |-> e.out_t = OffsetDoc(e.x, e.met, e.bl) ]
           [] e.op = "lcm"  -> [ as_transcribed |-> e.got = FindLcm(e.a, e.th),
                                 multiples |-> Len(e.got) = Len(e.a) /\ \A k \in DOMAIN e.a : e.got[k] % e.a[k] = 0 ]

Failing(e) == LET c == Clauses(e) IN { k \in DOMAIN c : ~c[k] }
Init == l = 1 /\ nbad = 0
Next == /\ l <= Len(TLog)
        /\ LET f == Failing(TLog[l]) IN
             /\ (f # {} => PrintT(ToJson([id |-> TLog[l].id, failing |-> f])))
             /\ nbad' = nbad + (IF f = {} THEN 0 ELSE 1)
        /\ l' = l + 1
Spec == Init /\ [][Next]_<<l, nbad>>
Done == (l = Len(TLog) + 1) => PrintT(ToJson([done |-> l - 1, bad |-> nbad]))
=============================================================================
