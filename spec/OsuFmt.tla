------------------------------- MODULE OsuFmt -------------------------------
(***************************************************************************)
(* C01: what a .osu text (v14, mania) denotes, and what a written text     *)
(* must look like.  The text layer is tokenised outside (lexer): this      *)
(* module interprets TOKENS.                                               *)
(*                                                                         *)
(* Tokens of a file                                                        *)
(*   keys       CircleSize as an integer                                   *)
(*   meta       sequence of [key, raw, words, num, isnum]: a `key:value`   *)
(*              line; raw = everything after the FIRST ':' trimmed,        *)
(*              num = the value x1000 when it is numeric                   *)
(*   tps        sequence of [t, code, meter, ss, si, vol, uninh, fx]       *)
(*              t x1000, code (beat length or -100/sv) x100                *)
(*   objs       sequence of [x, y, t, type, hs, end, ss, as, ci, vol, file, arity] *)
(*   samples    sequence of [t, file, vol]                                 *)
(*   bg         background file name                                       *)
(* Chart (projection of an OsuMap)                                         *)
(*   keys, hits, holds, bpms, svs, samples, meta (record), bg              *)
(***************************************************************************)
EXTENDS Integers, Sequences, FiniteSets

Abs(x) == IF x < 0 THEN -x ELSE x
Range(s) == { s[i] : i \in DOMAIN s }
SameBag(s1, s2) ==
    /\ Len(s1) = Len(s2)
    /\ \A r \in Range(s1) \cup Range(s2) :
          Cardinality({ i \in DOMAIN s1 : s1[i] = r }) = Cardinality({ i \in DOMAIN s2 : s2[i] = r })
Bit(v, b) == (v \div b) % 2 = 1

(* column <-> x, in integer arithmetic *)
XToCol(x, k) == LET c == (x * k) \div 512 IN IF c > k - 1 THEN k - 1 ELSE IF c < 0 THEN 0 ELSE c
ColToX(c, k) == (512 * c + 256) \div k
(* lemmas (checked by TLC for every k in 1..18): *)
XColRoundTrip == \A k \in 1..18 : \A c \in 0..(k-1) : XToCol(ColToX(c, k), k) = c
XColMonotone  == \A k \in 1..18 : \A x \in 0..511 : XToCol(x, k) <= XToCol(x + 1, k)
XColCovers    == \A k \in 1..18 : { XToCol(x, k) : x \in 0..512 } = 0..(k-1)

(* ---- denotation of the tokens ---- *)
IsHit(o)  == Bit(o.type, 1)
IsHold(o) == Bit(o.type, 128)
DenHits(f) ==
    LET S == { i \in DOMAIN f.objs : IsHit(f.objs[i]) /\ ~IsHold(f.objs[i]) } IN
    { <<i, [t |-> f.objs[i].t, c |-> XToCol(f.objs[i].x, f.keys), hs |-> f.objs[i].hs, ss |-> f.objs[i].ss,
            as |-> f.objs[i].as, ci |-> f.objs[i].ci, vol |-> f.objs[i].vol, file |-> f.objs[i].file]>> : i \in S }
DenHolds(f) ==
    LET S == { i \in DOMAIN f.objs : IsHold(f.objs[i]) } IN
    { <<i, [t |-> f.objs[i].t, c |-> XToCol(f.objs[i].x, f.keys), n |-> f.objs[i].end - f.objs[i].t,
            hs |-> f.objs[i].hs, ss |-> f.objs[i].ss, as |-> f.objs[i].as, ci |-> f.objs[i].ci,
            vol |-> f.objs[i].vol, file |-> f.objs[i].file]>> : i \in S }
Tempo(f) == { i \in DOMAIN f.tps : f.tps[i].uninh = 1 }
Svs(f)   == { i \in DOMAIN f.tps : f.tps[i].uninh = 0 }

(* bpm x100 against a beat length x100:  bpm * code = 60000 *)
BpmMatches(bpm100, code100) == Abs(bpm100 * code100 - 600000000) <= Abs(bpm100) + Abs(code100)
(* multiplier x10000 against an SV code x100:  mult * code = -100 *)
SvMatches(m4, code100) == Abs(m4 * code100 + 100000000) <= Abs(m4) + Abs(code100)

(* a set of <<index, value>> as an arbitrary sequence *)
RECURSIVE AsSeq(_)
AsSeq(S) == IF S = {} THEN <<>> ELSE LET p == CHOOSE p \in S : \A q \in S : p[1] <= q[1] IN <<p[2]>> \o AsSeq(S \ {p})

(* list of objects equal as bags up to a time tolerance: sort by (column, time), compare pairwise *)
RECURSIVE SortCT(_)
Less(a, b) == a.c < b.c \/ (a.c = b.c /\ a.t < b.t) \/ (a.c = b.c /\ a.t = b.t /\ a.hs < b.hs)
InsCT(s, r) == LET k == Cardinality({ i \in DOMAIN s : Less(s[i], r) }) IN SubSeq(s, 1, k) \o <<r>> \o SubSeq(s, k + 1, Len(s))
SortCT(s) == IF s = <<>> THEN <<>> ELSE InsCT(SortCT(Tail(s)), Head(s))

NotesNear(a, b, tol, hold) ==
    LET x == SortCT(a)  y == SortCT(b) IN
    /\ Len(x) = Len(y)
    /\ \A i \in DOMAIN x :
         /\ Abs(x[i].t - y[i].t) <= tol /\ x[i].c = y[i].c
         /\ (hold => Abs((x[i].t + x[i].n) - (y[i].t + y[i].n)) <= tol)
         /\ x[i].hs = y[i].hs /\ x[i].ss = y[i].ss /\ x[i].as = y[i].as /\ x[i].ci = y[i].ci
         /\ x[i].vol = y[i].vol /\ x[i].file = y[i].file

RECURSIVE SortT(_)
InsT(s, r) == LET k == Cardinality({ i \in DOMAIN s : s[i].t < r.t \/ (s[i].t = r.t /\ s[i].key <= r.key) }) IN
              SubSeq(s, 1, k) \o <<r>> \o SubSeq(s, k + 1, Len(s))
SortT(s) == IF s = <<>> THEN <<>> ELSE InsT(SortT(Tail(s)), Head(s))

(* tempo points of the file against the chart's *)
TempoNear(f, bpms, tol) ==
    LET ft == SortT([i \in 1..Cardinality(Tempo(f)) |->
                 LET j == CHOOSE j \in Tempo(f) : Cardinality({ q \in Tempo(f) : q < j }) = i - 1 IN
                 [t |-> f.tps[j].t, key |-> f.tps[j].code, tp |-> f.tps[j]]])
        cb == SortT([i \in DOMAIN bpms |-> [t |-> bpms[i].t, key |-> 0 - bpms[i].bpm, b |-> bpms[i]]])
    IN  /\ Len(ft) = Len(cb)
        /\ \A i \in DOMAIN ft :
             /\ Abs(ft[i].t - cb[i].t) <= tol
             /\ BpmMatches(cb[i].b.bpm, ft[i].tp.code)
             /\ ft[i].tp.meter = cb[i].b.met /\ ft[i].tp.ss = cb[i].b.ss /\ ft[i].tp.si = cb[i].b.si
             /\ ft[i].tp.vol = cb[i].b.vol /\ Bit(ft[i].tp.fx, 1) = cb[i].b.kiai
SvNear(f, svs, tol) ==
    LET ft == SortT([i \in 1..Cardinality(Svs(f)) |->
                 LET j == CHOOSE j \in Svs(f) : Cardinality({ q \in Svs(f) : q < j }) = i - 1 IN
                 \* points at one time are ordered by the multiplier the code denotes (codes of either sign)
                 [t |-> f.tps[j].t, key |-> IF f.tps[j].code = 0 THEN 0 ELSE (0 - 100000000) \div f.tps[j].code, tp |-> f.tps[j]]])
        cs == SortT([i \in DOMAIN svs |-> [t |-> svs[i].t, key |-> svs[i].m, s |-> svs[i]]])
    IN  /\ Len(ft) = Len(cs)
        /\ \A i \in DOMAIN ft :
             /\ Abs(ft[i].t - cs[i].t) <= tol
             /\ SvMatches(cs[i].s.m, ft[i].tp.code)
             /\ ft[i].tp.ss = cs[i].s.ss /\ ft[i].tp.si = cs[i].s.si
             /\ ft[i].tp.vol = cs[i].s.vol /\ Bit(ft[i].tp.fx, 1) = cs[i].s.kiai
SamplesNear(f, samples, tol) ==
    LET a == SortT([i \in DOMAIN f.samples |-> [t |-> f.samples[i].t, key |-> f.samples[i].vol, s |-> f.samples[i]]])
        b == SortT([i \in DOMAIN samples |-> [t |-> samples[i].t, key |-> samples[i].vol, s |-> samples[i]]])
    IN  /\ Len(a) = Len(b)
        /\ \A i \in DOMAIN a : Abs(a[i].t - b[i].t) <= tol /\ a[i].s.file = b[i].s.file /\ a[i].s.vol = b[i].s.vol

(* ---- metadata: key of the file, field of the chart, kind of value ---- *)
MetaTable == <<
  <<"AudioFilename", "audio_file_name", "str">>, <<"AudioLeadIn", "audio_lead_in", "num">>,
  <<"PreviewTime", "preview_time", "int">>, <<"Countdown", "countdown", "bool">>, <<"SampleSet", "sample_set", "sset">>,
  <<"StackLeniency", "stack_leniency", "num">>, <<"Mode", "mode", "num">>, <<"LetterboxInBreaks", "letterbox_in_breaks", "bool">>,
  <<"SpecialStyle", "special_style", "bool">>, <<"WidescreenStoryboard", "widescreen_storyboard", "bool">>,
  <<"DistanceSpacing", "distance_spacing", "num">>, <<"BeatDivisor", "beat_divisor", "num">>, <<"GridSize", "grid_size", "num">>,
  <<"TimelineZoom", "timeline_zoom", "num">>, <<"Title", "title", "str">>, <<"TitleUnicode", "title_unicode", "str">>,
  <<"Artist", "artist", "str">>, <<"ArtistUnicode", "artist_unicode", "str">>, <<"Creator", "creator", "str">>,
  <<"Version", "version", "str">>, <<"Source", "source", "str">>, <<"Tags", "tags", "words">>,
  <<"BeatmapID", "beatmap_id", "num">>, <<"BeatmapSetID", "beatmap_set_id", "num">>, <<"HPDrainRate", "hp_drain_rate", "num">>,
  <<"CircleSize", "circle_size", "num">>, <<"OverallDifficulty", "overall_difficulty", "num">>,
  <<"ApproachRate", "approach_rate", "num">>, <<"SliderMultiplier", "slider_multiplier", "num">>,
  <<"SliderTickRate", "slider_tick_rate", "num">> >>
SSet(s) == CASE s = "None" -> 0 [] s = "Normal" -> 1 [] s = "Soft" -> 2 [] s = "Drum" -> 3 [] OTHER -> 0 - 1

(* a meta line of the file agrees with the chart's field; tol (x1000) applies to "int" fields (truncated on write) *)
MetaLineOK(line, row, meta, tol) ==
    LET v == meta[row[2]] IN
    CASE row[3] = "str"   -> line.raw = v.str
      [] row[3] = "words" -> line.words = v.words
      \* numbers x1000 are carried as hi * 10^9 + num (32-bit integers)
      [] row[3] = "num"   -> line.isnum /\ line.hi = v.hi /\ line.num = v.num
      [] row[3] = "int"   -> line.isnum /\ line.hi = v.hi /\ Abs(line.num - v.num) <= tol
      [] row[3] = "bool"  -> line.isnum /\ ((line.num # 0) = (v.num # 0))
      [] row[3] = "sset"  -> SSet(line.raw) = v.num \div 1000

(* every known key present in the file agrees with the chart *)
MetaAgrees(f, meta, tol) ==
    \A i \in DOMAIN f.meta : \A r \in DOMAIN MetaTable :
        f.meta[i].key = MetaTable[r][1] => MetaLineOK(f.meta[i], MetaTable[r], meta, tol)
(* every key of the table occurs exactly once (written files) *)
MetaComplete(f) == \A r \in DOMAIN MetaTable : Cardinality({ i \in DOMAIN f.meta : f.meta[i].key = MetaTable[r][1] }) = 1

(* ---- the file denotes the chart, with times moved by at most tol projected units (the projection rounds to
   1/1000 ms, so `less than 1 ms` is tol = 1000 inclusive; tol = 0 is exact) ---- *)
DenotesClauses(f, ch, tol) ==
    [ hits    |-> NotesNear(AsSeq(DenHits(f)), [i \in DOMAIN ch.hits |-> ch.hits[i]], tol, FALSE),
      holds   |-> NotesNear(AsSeq(DenHolds(f)), [i \in DOMAIN ch.holds |-> ch.holds[i]], tol, TRUE),
      tempo   |-> TempoNear(f, ch.bpms, tol),
      svs     |-> SvNear(f, ch.svs, tol),
      samples |-> SamplesNear(f, ch.samples, tol),
      meta    |-> MetaAgrees(f, ch.meta, tol),
      background |-> f.bg = ch.bg,
      keys    |-> f.keys = ch.keys ]

(* ---- well-formedness of a written file (on tokens) ---- *)
WellFormed(f) ==
    [ header   |-> f.version = "osu file format v14",
      sections |-> f.sections = <<"General", "Editor", "Metadata", "Difficulty", "Events", "TimingPoints", "HitObjects">>,
      meta_complete |-> MetaComplete(f),
      tp_arity |-> \A i \in DOMAIN f.tps : f.tps[i].arity = 8 /\ f.tps[i].uninh \in {0, 1},
      obj_shape |-> \A i \in DOMAIN f.objs :
                      /\ f.objs[i].arity = (IF IsHold(f.objs[i]) THEN 6 ELSE 5)
                      /\ (IsHit(f.objs[i]) \/ IsHold(f.objs[i])) /\ ~(IsHit(f.objs[i]) /\ IsHold(f.objs[i]))
                      /\ f.objs[i].x >= 0 /\ f.objs[i].x <= 512
                      /\ (IsHold(f.objs[i]) => f.objs[i].end >= f.objs[i].t),
      obj_order |-> \A i \in 1..Len(f.objs)-1 : f.objs[i].t <= f.objs[i+1].t,
      no_junk  |-> f.junk = 0 ]
=============================================================================
