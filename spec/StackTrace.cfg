SPECIFICATION Spec
CONSTRAINT Done
