SPECIFICATION Spec
CONSTANTS
  G = 2
  BLs = {480000, 250000, 600000}
  Mets = {3, 4}
  MaxC = 3
  MaxQ = 2
  MaxM = 2
  T0s <- T0One
  Emit = FALSE
INVARIANT TypeOK
INVARIANT ImplRefinesRef
INVARIANT RoundTrip
CONSTRAINT EmitScn
