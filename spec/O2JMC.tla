-------------------------------- MODULE O2JMC --------------------------------
(***************************************************************************)
(* Generator of small OJN token files: one difficulty with up to MaxNote    *)
(* note events (hits, long-note heads and tails spanning packages and       *)
(* measures) on columns 0/6 and up to MaxTempo tempo events anywhere        *)
(* (including after the last note); every event is its own package.         *)
(* SweepImpl transcribes O2JMap.read_pkgs as repaired: the tempo events are *)
(* integrated in measure order, each note measure takes the last tempo      *)
(* point at or before it.  Invariant: SweepImpl = the denotation.           *)
(***************************************************************************)
EXTENDS OJNFmt, TLC, Json

CONSTANTS MaxNote, MaxTempo, Ns, MaxM, Emit, EmitMod
VARIABLES notes, tempo, done
vars == <<notes, tempo, done>>

Pos == { <<m, i, n>> : m \in 0..MaxM, n \in Ns, i \in 0..3 }
Valid(p) == p[2] < p[3]
Lt(p, q) == p[1] < q[1] \/ (p[1] = q[1] /\ p[2] * q[3] < q[2] * p[3])
Init == notes = <<>> /\ tempo = <<>> /\ done = FALSE
LastOf(c) == LET S == { k \in DOMAIN notes : notes[k].c = c } IN IF S = {} THEN 0 ELSE CHOOSE k \in S : \A j \in S : j <= k
AddNote == /\ ~done /\ Len(notes) < MaxNote /\ tempo = <<>>
           /\ \E c \in {0, 6}, p \in { p \in Pos : Valid(p) }, k \in {0, 2, 3} :
                LET last == LastOf(c) IN
                /\ (IF last = 0 THEN TRUE ELSE Lt(notes[last].pos, p))
                /\ (k = 3 => (IF last = 0 THEN FALSE ELSE notes[last].kind = 2))
                /\ (k # 3 => (IF last = 0 THEN TRUE ELSE notes[last].kind # 2))
                /\ (IF notes = <<>> THEN TRUE ELSE ~Lt(p, notes[Len(notes)].pos))
                /\ notes' = Append(notes, [c |-> c, pos |-> p, kind |-> k])
           /\ UNCHANGED <<tempo, done>>
AddTempo == /\ ~done /\ Len(tempo) < MaxTempo
            /\ \E p \in { p \in Pos : Valid(p) /\ p[3] \in {1, 2} }, bl \in {25000, 100000} :
                 /\ (IF tempo = <<>> THEN TRUE ELSE Lt(tempo[Len(tempo)].pos, p))
                 /\ tempo' = Append(tempo, [pos |-> p, bl |-> bl])
            /\ UNCHANGED <<notes, done>>
Complete == \A c \in {0, 6} : LET last == LastOf(c) IN IF last = 0 THEN TRUE ELSE notes[last].kind # 2
Finish == ~done /\ Complete /\ done' = TRUE /\ UNCHANGED <<notes, tempo>>
Next == AddNote \/ AddTempo \/ Finish
Spec == Init /\ [][Next]_vars

Lvl == [k \in 1..(Len(notes) + Len(tempo)) |->
          IF k <= Len(notes)
          THEN [m |-> notes[k].pos[1], ch |-> notes[k].c + 2, n |-> notes[k].pos[3],
                evs |-> << [i |-> notes[k].pos[2], kind |-> notes[k].kind, vol |-> 3 + notes[k].c, pan |-> 8, bl |-> 0] >>]
          ELSE LET t == tempo[k - Len(notes)] IN
               [m |-> t.pos[1], ch |-> 1, n |-> t.pos[3], evs |-> << [i |-> t.pos[2], kind |-> 0, vol |-> 0, pan |-> 0, bl |-> t.bl] >>]]
File == [bl0 |-> 50000]

(* ---- transcription of the (repaired) sweep ---- *)
TL == TempoList(File, Lvl)
SweepTicks(x) ==
    LET p == P4800(Lvl, x)
        S == { k \in DOMAIN TL : TL[k].p <= p }
        k == CHOOSE k \in S : \A j \in S : j <= k
    IN  TStart(TL, 0, k) + Mul4800(p - TL[k].p, TL[k].bl)
SweepRefinesRef == done => \A x \in Evs(Lvl) : Lvl[x[1]].ch # 1 => Abs(SweepTicks(x) - EvTicks(File, Lvl, x)) <= 2
DenotationTotal == done => /\ Paired(Lvl)
                           /\ Cardinality(DenHits(File, Lvl)) + 2 * Cardinality(DenHolds(File, Lvl)) = Len(notes)

RECURSIVE HSum(_)
HSum(s) == IF s = <<>> THEN 0 ELSE s[1].pos[1] * 5 + s[1].pos[2] * 7 + s[1].pos[3] * 11 + HSum(Tail(s))
EmitScn == (Emit /\ done /\ (HSum(notes) + HSum(tempo)) % EmitMod = 0) =>
    PrintT(ToJson([kind |-> "ojn", lvl |-> Lvl, bl0 |-> File.bl0]))
=============================================================================
