SPECIFICATION Spec
CONSTANTS
  K = 2
  MaxFrames = 5
  Deltas = {0, 10, 25}
  Emit = TRUE
INVARIANT PipelineAfterBaseline
INVARIANT PipelineSubset
CONSTRAINT EmitScn
CHECK_DEADLOCK FALSE
