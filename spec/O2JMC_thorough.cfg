SPECIFICATION Spec
CONSTANTS
  MaxNote = 3
  MaxTempo = 2
  Ns = {1, 2, 3, 4}
  MaxM = 1
  Emit = TRUE
  EmitMod = 61
INVARIANT SweepRefinesRef
INVARIANT DenotationTotal
CONSTRAINT EmitScn
