SPECIFICATION Spec
CONSTANTS
  KeysSet = {4}
  TimesSet <- TimesQ
  MaxObj = 0
  MaxTp = 0
  Wide = FALSE
  Emit = FALSE
INVARIANT WriteModel
CONSTRAINT EmitScn
