---------------------------- MODULE HitsoundTrace ----------------------------
(* Trace validator for C18: one record per real hitsound_copy call. *)
EXTENDS Hitsound, TLC, Json, IOUtils
VARIABLES l, nbad
TLog == ndJsonDeserialize(IOEnv.TRACE_FILE)

Clauses(e) ==
    IF e.exc # "" THEN [ no_exc |-> FALSE ]
    ELSE LET c == HitsoundClauses(e.src, e.tgt, e.out, e.ev) IN
         [ k \in DOMAIN c \cup {"inputs_unchanged"} |->
             IF k = "inputs_unchanged" THEN e.src_after = e.src /\ e.tgt_after = e.tgt /\ e.tgt_ev_after = e.tgt_ev
             ELSE c[k] ]

Failing(e) == LET c == Clauses(e) IN { k \in DOMAIN c : ~c[k] }
Init == l = 1 /\ nbad = 0
Next == /\ l <= Len(TLog)
        /\ LET f == Failing(TLog[l]) IN
             /\ (f # {} => PrintT(ToJson([id |-> TLog[l].id, failing |-> f])))
             /\ nbad' = nbad + (IF f = {} THEN 0 ELSE 1)
        /\ l' = l + 1
Spec == Init /\ [][Next]_<<l, nbad>>
Done == (l = Len(TLog) + 1) => PrintT(ToJson([done |-> l - 1, bad |-> nbad]))
=============================================================================
