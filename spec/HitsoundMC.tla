----------------------------- MODULE HitsoundMC -----------------------------
(***************************************************************************)
(* Transcription of hitsound_copy for ONE time point (times are            *)
(* independent in the code): the volume groups in ascending volume, per    *)
(* group first max(c,f,w) combined default sounds, then the files, placed  *)
(* on `slot = 0..slot_max-1`; default sounds that do not fit are dropped,  *)
(* files that do not fit become event samples.  DropOverflowFiles = TRUE   *)
(* is the behaviour before the repair (only the first overflowing file of  *)
(* a volume group became an event): TLC then violates samples_conserved.   *)
(***************************************************************************)
EXTENDS Hitsound, TLC, Json

CONSTANTS MaxSrc, MaxTgt, Vols0, FilesSet, DropOverflowFiles, Emit
VARIABLES src, ntgt, done
vars == <<src, ntgt, done>>

HsSets == {0, 2, 4, 8, 6, 10, 12, 14}
Key(x) == x.hs * 100 + x.vol
Init == src = <<>> /\ ntgt \in 0..MaxTgt /\ done = FALSE
Add == /\ ~done /\ Len(src) < MaxSrc
       /\ \E hs \in HsSets, v \in Vols0, f \in FilesSet \cup {""} :
            LET x == [t |-> 0, c |-> 0, n |-> 0, k |-> "hit", hs |-> hs, vol |-> v, file |-> f] IN
            /\ (IF src = <<>> THEN TRUE ELSE Key(src[Len(src)]) <= Key(x))
            /\ (hs # 0 \/ f # "")
            /\ src' = Append(src, x)
       /\ UNCHANGED <<ntgt, done>>
Finish == ~done /\ done' = TRUE /\ UNCHANGED <<src, ntgt>>
Next == Add \/ Finish
Spec == Init /\ [][Next]_vars

Tgt == [i \in 1..ntgt |-> [t |-> 0, c |-> i, n |-> 0, k |-> "hit", hs |-> 0, vol |-> 0, file |-> ""]]

(* ---- the slot machine ---- *)
VolList == LET S == Vols(src, 0)
               RECURSIVE Sort(_)
               Sort(R) == IF R = {} THEN <<>> ELSE LET m == CHOOSE m \in R : \A y \in R : m <= y IN <<m>> \o Sort(R \ {m})
           IN Sort(S)
Group(v) == { i \in DOMAIN src : src[i].vol = v }
Cnt(v, b) == Cardinality({ i \in Group(v) : Has(src[i].hs, b) })
FilesOf(v) == LET G == { i \in Group(v) : src[i].file # "" }
                  RECURSIVE L(_)
                  L(R) == IF R = {} THEN <<>> ELSE LET m == CHOOSE m \in R : \A y \in R : m <= y IN <<src[m].file>> \o L(R \ {m})
              IN L(G)

RECURSIVE PlaceHs(_, _, _, _, _, _, _)
(* st = [slot, notes];  c,f,w remaining counts;  k remaining iterations *)
PlaceHs(st, v, c, f, w, k, smax) ==
    IF k = 0 \/ st.slot = smax THEN st
    ELSE LET val == (IF c > 0 THEN 2 ELSE 0) + (IF f > 0 THEN 4 ELSE 0) + (IF w > 0 THEN 8 ELSE 0)
             n2 == [st.notes EXCEPT ![st.slot + 1] = [@ EXCEPT !.hs = val, !.vol = IF v > 0 THEN v ELSE 0]]
         IN PlaceHs([slot |-> st.slot + 1, notes |-> n2, ev |-> st.ev], v,
                    IF c > 0 THEN c - 1 ELSE 0, IF f > 0 THEN f - 1 ELSE 0, IF w > 0 THEN w - 1 ELSE 0, k - 1, smax)

RECURSIVE PlaceFiles(_, _, _, _, _)
PlaceFiles(st, v, fs, smax, stopped) ==
    IF fs = <<>> THEN st
    ELSE IF st.slot = smax
         THEN IF stopped THEN st
              ELSE PlaceFiles([st EXCEPT !.ev = Append(@, [t |-> 0, file |-> Head(fs), vol |-> v])], v, Tail(fs), smax,
                              DropOverflowFiles)
         ELSE PlaceFiles([slot |-> st.slot + 1, ev |-> st.ev,
                          notes |-> [st.notes EXCEPT ![st.slot + 1] = [@ EXCEPT !.file = Head(fs), !.vol = IF v > 0 THEN v ELSE 0]]],
                         v, Tail(fs), smax, stopped)

RECURSIVE Groups(_, _)
Groups(st, vs) ==
    IF vs = <<>> THEN st
    ELSE LET v == Head(vs)
             s1 == PlaceHs(st, v, Cnt(v, 2), Cnt(v, 4), Cnt(v, 8), Max3(Cnt(v, 2), Cnt(v, 4), Cnt(v, 8)), ntgt)
             s2 == PlaceFiles(s1, v, FilesOf(v), ntgt, FALSE)
         IN Groups(s2, Tail(vs))

Result == Groups([slot |-> 0, notes |-> Tgt, ev |-> <<>>], VolList)

ImplSatisfiesRef == done =>
    LET cl == HitsoundClauses(src, Tgt, Result.notes, Result.ev) IN \A k \in DOMAIN cl : cl[k]

EmitScn == (Emit /\ done /\ src # <<>>) => PrintT(ToJson([kind |-> "hs", src |-> src, ntgt |-> ntgt]))
=============================================================================
