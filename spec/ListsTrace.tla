----------------------------- MODULE ListsTrace -----------------------------
(***************************************************************************)
(* Trace validator for timed-list operations.  Each record is one call on  *)
(* a real list object: projected input before (pre) and after (pre_after)  *)
(* the call, arguments, projected result.  PROP selects the clause family: *)
(*   "C16"  plain-sequence semantics and declared fields                   *)
(*   "C14"  frame condition: the input is left identical                   *)
(***************************************************************************)
EXTENDS Lists, TLC, Json, IOUtils

VARIABLES l, nbad
TLog == ndJsonDeserialize(IOEnv.TRACE_FILE)
PROP == IOEnv.VERIF_PROP

SeqSet(s) == { s[i] : i \in DOMAIN s }
FieldsOK(e) == SeqSet(e.cols) = SeqSet(e.declared) /\ Len(e.cols) = Len(e.declared)

Sem(e) ==
    LET n == Len(e.pre) IN
    CASE e.op = "from_items" -> [ rows |-> e.post = e.rows, fields |-> FieldsOK(e) ]
      [] e.op = "from_dict"  -> [ rows |-> e.post = e.rows, fields |-> FieldsOK(e) ]
      [] e.op = "empty"      -> [ rows |-> Len(e.post) = e.n /\ \A i \in DOMAIN e.post : e.post[i] = e.default,
                                  fields |-> FieldsOK(e) ]
      [] e.op = "len"        -> [ len |-> e.res = n ]
      [] e.op = "get"        -> [ item |-> e.post = << e.pre[NormIdx(e.i, n) + 1] >> ]
      [] e.op = "iter"       -> [ iter |-> e.post = e.pre ]
      [] e.op = "slice"      -> [ slice |-> e.post = PySlice(e.pre, e.a, e.b), fields |-> FieldsOK(e) ]
      [] e.op = "mask"       -> [ mask |-> e.post = Filter(e.pre, e.mask), fields |-> FieldsOK(e) ]
      [] e.op = "first"      -> [ first |-> IF n = 0 THEN e.none ELSE ~e.none /\ e.res = FirstOffset(e.pre) ]
      [] e.op = "last"       -> [ last |-> IF n = 0 THEN e.none ELSE ~e.none /\ e.res = LastOffset(e.pre, e.hold) ]
      [] e.op = "first_last" -> [ first_last |-> IF n = 0 THEN e.none
                                                 ELSE ~e.none /\ e.res = FirstOffset(e.pre)
                                                      /\ e.res2 = LastOffset(e.pre, e.hold) ]
      [] e.op = "sorted"     -> [ sorted |-> SortedRef(e.pre, e.rev, e.post), fields |-> FieldsOK(e) ]
      [] e.op = "append"     -> [ append |-> AppendRef(e.pre, e.add, e.sort, e.post), fields |-> FieldsOK(e) ]
      [] e.op = "after"      -> [ filter |-> e.post = AfterRef(e.pre, e.t, e.inc, e.tail), fields |-> FieldsOK(e) ]
      [] e.op = "before"     -> [ filter |-> e.post = BeforeRef(e.pre, e.t, e.inc, e.head), fields |-> FieldsOK(e) ]
      [] e.op = "between"    -> [ filter |-> e.post = BetweenRef(e.pre, e.lo, e.hi, e.inclo, e.inchi, e.head, e.tail),
                                  fields |-> FieldsOK(e) ]
      [] e.op = "deepcopy"   -> [ copy |-> e.post = e.pre, fields |-> FieldsOK(e) ]
      [] e.op = "move_start" -> [ moved |-> Len(e.post) = n /\ \A i \in 1..n :
                                      e.post[i] = [e.pre[i] EXCEPT !.o = e.pre[i].o + e.to - FirstOffset(e.pre)] ]
      [] e.op = "move_end"   -> [ moved |-> Len(e.post) = n /\ \A i \in 1..n :
                                      e.post[i] = [e.pre[i] EXCEPT !.o = e.pre[i].o + e.to - LastOffset(e.pre, e.hold)] ]
      [] e.op = "append_partial" -> [ argument_kept |-> e.arg_after = e.arg_pre ]
      [] OTHER               -> [ known_op |-> FALSE ]

Clauses(e) ==
    IF PROP = "C14" THEN
        [ input_unchanged |-> e.pre_after = e.pre /\ e.meta_after = e.meta_pre
                              /\ (e.op = "append_partial" => e.arg_after = e.arg_pre),     \* the appended argument is an input too
          no_share |-> e.shared = 0 ]
    ELSE IF e.exc # "" THEN [ no_exc |-> e.op = "get_oob" /\ e.exc = "IndexError" ]
    ELSE IF e.op = "get_oob" THEN [ raises |-> FALSE ]
    \* a key that is not a declared field is refused (ValueError) or at least never becomes a field of the list
    ELSE IF e.op = "from_dict_undeclared" THEN [ declared_only |-> e.refused \/ FieldsOK(e) ]
    ELSE Sem(e)

Failing(e) == LET c == Clauses(e) IN { k \in DOMAIN c : ~c[k] }

Init == l = 1 /\ nbad = 0
Next == /\ l <= Len(TLog)
        /\ LET f == Failing(TLog[l]) IN
             /\ (f # {} => PrintT(ToJson([id |-> TLog[l].id, failing |-> f])))
             /\ nbad' = nbad + (IF f = {} THEN 0 ELSE 1)
        /\ l' = l + 1
Spec == Init /\ [][Next]_<<l, nbad>>
Done == (l = Len(TLog) + 1) => PrintT(ToJson([done |-> l - 1, bad |-> nbad]))
=============================================================================
