----------------------------- MODULE StackTrace -----------------------------
(* Trace validator for C12: every record is one assignment through a real Stacker. *)
EXTENDS Stack, TLC, Json, IOUtils

VARIABLES l, nbad
TLog == ndJsonDeserialize(IOEnv.TRACE_FILE)
SeqSet(s) == { s[i] : i \in DOMAIN s }

ShapeKept(e) ==
    /\ Len(e.post) = Len(e.pre)
    /\ \A L \in DOMAIN e.pre : /\ e.post[L].name = e.pre[L].name /\ e.post[L].cls = e.pre[L].cls
                               /\ Len(e.post[L].rows) = Len(e.pre[L].rows)

Clauses(e) ==
    IF e.exc # "" THEN [ no_exc |-> FALSE ]
    ELSE
    LET inc == SeqSet(e.inc) IN
    [ shape |-> ShapeKept(e),
      write_through |-> e.stale \/
          (IF e.op = "set" THEN SetColRef(e.pre, e.post, inc, e.p, e.f)
           ELSE LocSetRef(e.pre, e.post, inc, e.mask, SeqSet(e.cols), e.f)) ]

Failing(e) == LET c == Clauses(e) IN { k \in DOMAIN c : ~c[k] }

Init == l = 1 /\ nbad = 0
Next == /\ l <= Len(TLog)
        /\ LET f == Failing(TLog[l]) IN
             /\ (f # {} => PrintT(ToJson([id |-> TLog[l].id, failing |-> f])))
             /\ nbad' = nbad + (IF f = {} THEN 0 ELSE 1)
        /\ l' = l + 1
Spec == Init /\ [][Next]_<<l, nbad>>
Done == (l = Len(TLog) + 1) => PrintT(ToJson([done |-> l - 1, bad |-> nbad]))
=============================================================================
