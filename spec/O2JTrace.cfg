SPECIFICATION Spec
CONSTRAINT Done
