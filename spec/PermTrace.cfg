SPECIFICATION Spec
CONSTRAINT Done
