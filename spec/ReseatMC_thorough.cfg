SPECIFICATION Spec
CONSTANTS
  G = 2
  BLs = {480000, 240000, 600000}
  Mets = {3, 4}
  MaxC = 4
  MaxM = 3
  Emit = FALSE
INVARIANT ExactBl
INVARIANT Refines
INVARIANT NoExtend
INVARIANT OffsConsistent
CONSTRAINT EmitScn
