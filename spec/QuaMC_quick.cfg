SPECIFICATION Spec
CONSTANTS
  MaxObj = 1
  MaxTp = 2
  MaxSv = 1
  Emit = TRUE
INVARIANT DenotationTotal
INVARIANT Defaults
CONSTRAINT EmitScn
