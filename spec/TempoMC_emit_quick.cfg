SPECIFICATION Spec
CONSTANTS
  G = 2
  BLs = {480000, 250000}
  Mets = {3, 4}
  MaxC = 2
  MaxQ = 0
  MaxM = 2
  T0s <- T0Set
  Emit = TRUE
INVARIANT TypeOK
CONSTRAINT EmitScn
