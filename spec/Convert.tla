------------------------------ MODULE Convert ------------------------------
(***************************************************************************)
(* C08: converting between games preserves chart content exactly.          *)
(* A projected chart is a record                                           *)
(*   [hits  |-> Seq(<<offset, column>>),   holds |-> Seq(<<offset, column, length>>), *)
(*    bpms  |-> Seq(<<offset, bpm>>),      svs   |-> Seq(<<offset, multiplier>>)]     *)
(* with all numbers x1000; sequences are compared as bags.                 *)
(***************************************************************************)
EXTENDS Integers, Sequences, FiniteSets

Range(s) == { s[i] : i \in DOMAIN s }
SameBag(s1, s2) ==
    /\ Len(s1) = Len(s2)
    /\ \A r \in Range(s1) \cup Range(s2) :
          Cardinality({ i \in DOMAIN s1 : s1[i] = r }) = Cardinality({ i \in DOMAIN s2 : s2[i] = r })

ShiftCol(s, sh) == [i \in DOMAIN s |-> [s[i] EXCEPT ![2] = @ + sh]]

ChartPreserved(src, out, shift, carrySv) ==
    [ hits  |-> SameBag(ShiftCol(src.hits, shift), out.hits),
      holds |-> SameBag(ShiftCol(src.holds, shift), out.holds),
      bpms  |-> SameBag(src.bpms, out.bpms),
      svs   |-> carrySv => SameBag(src.svs, out.svs) ]
=============================================================================
