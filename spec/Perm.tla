-------------------------------- MODULE Perm --------------------------------
(***************************************************************************)
(* C15: a chart is a set of timed objects.  For every operation f the       *)
(* result on a chart whose lists were permuted must be EQUIVALENT to the    *)
(* result on the original:                                                  *)
(*   written files    equal denotation: equal bags of tokens per section    *)
(*   charts           equal bags per list                                   *)
(*   hitsound copy    equal note bag, equal bag of (time, sounds) and events *)
(*   scalars          equal ;  series: equal as maps                         *)
(* A projected result is a record  name -> sequence of rows; rows are       *)
(* compared as bags, so the equivalence does not see row order.             *)
(***************************************************************************)
EXTENDS Integers, Sequences, FiniteSets

Range(s) == { s[i] : i \in DOMAIN s }
SameBag(s1, s2) ==
    /\ Len(s1) = Len(s2)
    /\ \A r \in Range(s1) \cup Range(s2) :
          Cardinality({ i \in DOMAIN s1 : s1[i] = r }) = Cardinality({ i \in DOMAIN s2 : s2[i] = r })

Equivalent(a, b) == DOMAIN a = DOMAIN b /\ \A k \in DOMAIN a : SameBag(a[k], b[k])
Differing(a, b) == { k \in DOMAIN a \cup DOMAIN b : ~(k \in DOMAIN a /\ k \in DOMAIN b /\ SameBag(a[k], b[k])) }

(* all permutations of 1..n *)
Perms(n) == { p \in [1..n -> 1..n] : \A i, j \in 1..n : i # j => p[i] # p[j] }
Apply(s, p) == [i \in DOMAIN s |-> s[p[i]]]
=============================================================================
