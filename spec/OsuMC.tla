------------------------------- MODULE OsuMC -------------------------------
(***************************************************************************)
(* (1) the column <-> x lemmas for every key count 1..18 and every x;      *)
(* (2) a generator of small .osu token files: every combination of a few   *)
(*     hit-object / timing-point tokens (x at the edges and centre of a    *)
(*     column, negative / fractional / large times, type flags with the    *)
(*     new-combo bits, hitsound fields), emitted for concretisation.       *)
(* WriteModel: the writer's truncation int(t) keeps |t' - t| < 1 ms and    *)
(* is idempotent (generation 2 = generation 1).                            *)
(***************************************************************************)
EXTENDS OsuFmt, TLC, Json

CONSTANTS KeysSet, TimesSet, MaxObj, MaxTp, Wide, Emit
VARIABLES keys, objs, tps, done
vars == <<keys, objs, tps, done>>

Xs(k) == UNION { { (512 * c) \div k + (IF (512 * c) % k = 0 THEN 0 ELSE 1),   \* first x of column c
                   ColToX(c, k),
                   (512 * (c + 1) - 1) \div k }                                \* last x of column c
                 : c \in (IF Wide THEN {0, k \div 2, k - 1} ELSE {0, k - 1}) }
TimesQ == {0 - 1500, 0, 500, 999875, 1000000}
KeysAll == 1..18
Types == {1, 5, 128, 132}
Init == keys \in KeysSet /\ objs = <<>> /\ tps = <<>> /\ done = FALSE
AddObj == /\ ~done /\ Len(objs) < MaxObj /\ tps = <<>>
          /\ \E x \in Xs(keys), t \in TimesSet, ty \in Types, hs \in {0, 10} :
               /\ (IF objs = <<>> THEN TRUE ELSE objs[Len(objs)].t <= t)
               /\ objs' = Append(objs, [x |-> x, y |-> 192, t |-> t, type |-> ty, hs |-> hs,
                                        end |-> IF Bit(ty, 128) THEN t + 250500 ELSE 0,
                                        ss |-> hs \div 10, as |-> 2, ci |-> 0, vol |-> 7 * (hs \div 10),
                                        file |-> IF hs = 10 THEN "f.wav" ELSE "", arity |-> IF Bit(ty, 128) THEN 6 ELSE 5])
          /\ UNCHANGED <<keys, tps, done>>
AddTp == /\ ~done /\ Len(tps) < MaxTp
         /\ \E t \in TimesSet, u \in {0, 1}, code \in {50000, 33333}, sg \in {1, 0 - 1} :
              /\ (IF tps = <<>> THEN TRUE ELSE tps[Len(tps)].t <= t)
              /\ (u = 1 => sg = 1)       \* an inherited point may carry a positive code (negative multiplier)
              /\ tps' = Append(tps, [t |-> t, code |-> IF u = 1 THEN code ELSE sg * (0 - (code \div 250)), meter |-> 3 + u,
                                     ss |-> 1, si |-> u, vol |-> 40 + 10 * u, uninh |-> u, fx |-> 1 - u, arity |-> 8])
         /\ UNCHANGED <<keys, objs, done>>
Finish == ~done /\ done' = TRUE /\ UNCHANGED <<keys, objs, tps>>
Next == AddObj \/ AddTp \/ Finish
Spec == Init /\ [][Next]_vars

ASSUME Lemmas == XColRoundTrip /\ XColMonotone /\ XColCovers
(* int() truncation toward zero, on x1000 values *)
Trunc(t) == IF t >= 0 THEN (t \div 1000) * 1000 ELSE 0 - (((0 - t) \div 1000) * 1000)
WriteModel == \A t \in TimesSet : Abs(Trunc(t) - t) < 1000 /\ Trunc(Trunc(t)) = Trunc(t)
ColumnsInRange == \A i \in DOMAIN objs : XToCol(objs[i].x, keys) \in 0..(keys - 1)

EmitScn == (Emit /\ done) => PrintT(ToJson([kind |-> "osu", keys |-> keys, objs |-> objs, tps |-> tps]))
=============================================================================
