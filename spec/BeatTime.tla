------------------------------ MODULE BeatTime ------------------------------
(***************************************************************************)
(* Beat positions -> time over a tempo list, shared by the StepMania, BMS  *)
(* and O2Jam format specs.  1 tick = 10 microseconds.  A tempo list is a   *)
(* sequence of [p |-> beat x4800, bl |-> ticks per beat] sorted by p; `off`*)
(* is the time of beat 0.  All arithmetic stays inside 32 bits.            *)
(***************************************************************************)
EXTENDS Integers, Sequences, FiniteSets

Abs(x) == IF x < 0 THEN -x ELSE x
Max2(a, b) == IF a > b THEN a ELSE b

(* A/4800 beats at bl ticks per beat, without leaving 32 bits *)
Mul4800(A, bl) == (A \div 4800) * bl + ((A % 4800) * bl) \div 4800

(* time of tempo change k *)
RECURSIVE TStart(_, _, _)
TStart(bpms, off, k) ==
    IF k = 1 THEN off ELSE TStart(bpms, off, k-1) + Mul4800(bpms[k].p - bpms[k-1].p, bpms[k-1].bl)

(* the same times as one sequence, computed in one pass (TLC does not memoise TStart) *)
RECURSIVE StartsAcc(_, _, _)
StartsAcc(bpms, acc, k) ==
    IF k > Len(bpms) THEN acc
    ELSE StartsAcc(bpms, Append(acc, acc[k-1] + Mul4800(bpms[k].p - bpms[k-1].p, bpms[k-1].bl)), k + 1)
Starts(bpms, off) == StartsAcc(bpms, <<off>>, 2)

(* absolute beat W + num/den  ->  ticks *)
SegOf(bpms, W, num, den) ==
    \* p/4800 <= W + num/den, written so that no product leaves 32 bits (p is an integer: p <= floor of the right side)
    LET S == { k \in DOMAIN bpms : bpms[k].p <= 4800 * W + (4800 * num) \div den }
    IN  IF S = {} THEN 1 ELSE CHOOSE k \in S : \A j \in S : j <= k
BeatToTicks(bpms, off, W, num, den) ==
    LET k == SegOf(bpms, W, num, den)
    IN  TStart(bpms, off, k) + Mul4800(W * 4800 - bpms[k].p, bpms[k].bl) + (num * bpms[k].bl) \div den
BlAt(bpms, W, num, den) == bpms[SegOf(bpms, W, num, den)].bl
(* the longer of the beat lengths on either side of a position: an object just before a tempo change is played in *)
(* the tempo before it, although its nearest grid position may be the change itself                                 *)
BlAround(bpms, W, num, den) ==
    \* p/4800 < W + num/den  (an integer is below x exactly when it is below the ceiling of x)
    LET S == { k \in DOMAIN bpms : bpms[k].p - 4800 * W < (4800 * num + den - 1) \div den }
        kb == IF S = {} THEN 1 ELSE CHOOSE k \in S : \A j \in S : j <= k
    IN  Max2(BlAt(bpms, W, num, den), bpms[kb].bl)

=============================================================================
