------------------------------ MODULE AccessMC ------------------------------
(* Bounded model: every chart of up to MaxLists lists over the class lattice, every class T, a typed assignment     *)
(* followed by a typed read.  SetThenGet holds for the documented meaning; the SANITY configuration checks the same *)
(* for what the code does and must be violated.                                                                    *)
EXTENDS Access, TLC, Json
CONSTANTS MaxLists, Emit, UseCode
VARIABLES objs, T, phase
Classes == {"TimedList", "NoteList", "HitList", "HoldList", "BpmList"}
Anc(c) == CASE c = "HitList" -> {"HitList", "NoteList", "TimedList"}
            [] c = "HoldList" -> {"HoldList", "NoteList", "TimedList"}
            [] c = "NoteList" -> {"NoteList", "TimedList"}
            [] c = "BpmList" -> {"BpmList", "TimedList"}
            [] OTHER -> {"TimedList"}
Charts == UNION { [1..n -> {"HitList", "HoldList", "NoteList", "BpmList", "TimedList"}] : n \in 1..MaxLists }
Init == /\ \E c \in Charts : objs = [k \in DOMAIN c |-> [name |-> k, anc |-> Anc(c[k]), id |-> 0]]
        /\ T \in Classes /\ phase = "fresh"
Assign == /\ phase = "fresh" /\ Matching(objs, T) # {}
          /\ LET v == [k \in 1..Cardinality(Matching(objs, T)) |-> 100 + k] IN
             objs' = IF UseCode THEN SetCode(objs, T, v) ELSE SetDoc(objs, T, v)
          /\ phase' = "assigned" /\ UNCHANGED T
Spec == Init /\ [][Assign]_<<objs, T, phase>>
SetThenGet == phase = "assigned" => Ids(Get(objs, T)) = [k \in 1..Cardinality(Matching(objs, T)) |-> 100 + k]
OthersKept == phase = "assigned" => \A k \in DOMAIN objs : T \notin objs[k].anc => objs[k].id = 0
EmitScn == (Emit /\ phase = "fresh") => PrintT(ToJson([kind |-> "access", T |-> T, classes |-> [k \in DOMAIN objs |-> CHOOSE c \in Classes : Anc(c) = objs[k].anc]]))
=============================================================================
