----------------------------- MODULE TempoTrace -----------------------------
(***************************************************************************)
(* Trace validator for the timing engine (C10).  Every line of the trace   *)
(* file is one call of the real code with its projected result; TLC        *)
(* evaluates the property clauses on it.  Verdicts are total: the whole    *)
(* file is consumed and each rejected record is printed with the names of  *)
(* its failing clauses.                                                    *)
(***************************************************************************)
EXTENDS Tempo, TLC, Json, IOUtils

VARIABLES l, nbad
TLog == ndJsonDeserialize(IOEnv.TRACE_FILE)
Tol == 1     \* ticks: the code goes through float arithmetic

OffsetsClauses(e) ==
    [ wf_input    |-> WellFormedTl(e.tl, e.G),
      no_exc      |-> e.exc = "",
      aligned     |-> e.exc = "" => Len(e.out) = Len(e.qs),
      integration |-> (e.exc = "" /\ Len(e.out) = Len(e.qs)) =>
                        \A x \in DOMAIN e.qs :
                          Abs(e.out[x] - PosToTicks(e.tl, e.G, e.t0, e.qs[x].m, e.qs[x].b)) <= Tol ]

(* e.starts: the offset form the code derived from the snap form (from_bpm_changes_snap) *)
StartsClauses(e) ==
    [ wf_input |-> WellFormedTl(e.tl, e.G),
      no_exc   |-> e.exc = "",
      count    |-> e.exc = "" => Len(e.out) = Len(e.tl),
      starts   |-> (e.exc = "" /\ Len(e.out) = Len(e.tl)) =>
                     \A k \in DOMAIN e.tl : Abs(e.out[k] - StartTicks(e.tl, e.G, e.t0, k)) <= Tol ]

SnapsClauses(e) ==
    LET n == Len(e.ts) IN
    [ wf_input   |-> WellFormedTl(e.tl, e.G),
      no_exc     |-> e.exc = "",
      aligned    |-> e.exc = "" => (Len(e.out) = n /\ Len(e.back) = n),
      ongrid_pos |-> (e.exc = "" /\ Len(e.out) = n) =>
                       \A x \in 1..n : OnGrid(e.tl, e.G, e.t0, e.ts[x]) =>
                          LET p == TicksToPos(e.tl, e.G, e.t0, e.ts[x]) IN
                          /\ e.out[x].m = p.m
                          /\ e.out[x].bd > 0
                          /\ e.out[x].bn * e.G = p.b * e.out[x].bd,
      back_near  |-> (e.exc = "" /\ Len(e.back) = n) =>
                       \A x \in 1..n :
                          Abs(e.back[x] - e.ts[x]) <=
                             (IF OnGrid(e.tl, e.G, e.t0, e.ts[x]) THEN Tol
                              ELSE ActiveBl(e.tl, e.G, e.t0, e.ts[x]) \div 192 + Tol) ]

BeatsClauses(e) ==
    LET n == Len(e.ts)
        On(x) == OnGrid(e.tl, e.G, e.t0, e.ts[x]) IN
    [ wf_input |-> WellFormedTl(e.tl, e.G) /\ ConstMet(e.tl),
      no_exc   |-> e.exc = "",
      aligned  |-> e.exc = "" => Len(e.out) = n,
      distance |-> (e.exc = "" /\ Len(e.out) = n) =>
                     \A x, y \in 1..n : (On(x) /\ On(y)) =>
                        /\ e.out[x].d > 0 /\ e.G % e.out[x].d = 0
                        /\ e.out[y].d > 0 /\ e.G % e.out[y].d = 0
                        /\ e.out[x].n * (e.G \div e.out[x].d) - e.out[y].n * (e.G \div e.out[y].d) =
                           TicksToAbs(e.tl, e.G, e.t0, e.ts[x]) - TicksToAbs(e.tl, e.G, e.t0, e.ts[y]) ]

SnapperClauses(e) ==
    LET divs == { e.divs[k] : k \in DOMAIN e.divs } IN
    [ no_exc     |-> e.exc = "",
      nearest    |-> e.exc = "" => SnapOK(divs, e.n, e.d, e.out.n, e.out.d),
      idempotent |-> e.exc = "" => e.again.n * e.out.d = e.out.n * e.again.d ]

(* Tempo lists given in offset form: change k is ANCHORED at its own time e.anchors[k], which may sit a little off the *)
(* grid of the segment before it (inside half a snap slot, so its position is still tl[k]); positions convert through *)
(* the anchor of their segment, and times on a segment's own grid convert back to themselves.                          *)
AnchTime(e, m, b) ==
    LET k == SegOfSnap(e.tl, m, b) IN
    e.anchors[k] + ((m - e.tl[k].m) * e.tl[k].met * e.G + b - e.tl[k].b) * (e.tl[k].bl \div e.G)
AnchSeg(e, t) == LET S == { k \in DOMAIN e.anchors : e.anchors[k] <= t } IN CHOOSE k \in S : \A j \in S : j <= k
AnchWF(e) ==
    /\ WellFormedTlDup(e.tl, e.G) /\ Seated(e.tl) /\ Len(e.anchors) = Len(e.tl)
    /\ \A k \in 2..Len(e.tl) :
          Abs(e.anchors[k] - (e.anchors[k-1] + (e.tl[k].m - e.tl[k-1].m) * e.tl[k-1].met * e.tl[k-1].bl)) < e.tl[k-1].bl \div 192
AnchOffsetsClauses(e) ==
    [ wf_input |-> AnchWF(e),
      no_exc   |-> e.exc = "",
      aligned  |-> e.exc = "" => Len(e.out) = Len(e.qs),
      integration |-> (e.exc = "" /\ Len(e.out) = Len(e.qs)) =>
                         \A x \in DOMAIN e.qs : Abs(e.out[x] - AnchTime(e, e.qs[x].m, e.qs[x].b)) <= Tol ]
AnchSnapsClauses(e) ==
    LET n == Len(e.ts) IN
    [ wf_input |-> AnchWF(e) /\ \A x \in 1..n : e.ts[x] >= e.anchors[1] /\
                                 (e.ts[x] - e.anchors[AnchSeg(e, e.ts[x])]) % (e.tl[AnchSeg(e, e.ts[x])].bl \div e.G) = 0,
      no_exc   |-> e.exc = "",
      aligned  |-> e.exc = "" => (Len(e.out) = n /\ Len(e.back) = n),
      ongrid_pos |-> (e.exc = "" /\ Len(e.out) = n) =>
                       \A x \in 1..n :
                          LET k == AnchSeg(e, e.ts[x])
                              d == (e.ts[x] - e.anchors[k]) \div (e.tl[k].bl \div e.G)
                              pm == e.tl[k].m + d \div (e.tl[k].met * e.G)
                              pb == d % (e.tl[k].met * e.G) IN
                          e.out[x].m = pm /\ e.out[x].bd > 0 /\ e.out[x].bn * e.G = pb * e.out[x].bd,
      back_near |-> (e.exc = "" /\ Len(e.back) = n) => \A x \in 1..n : Abs(e.back[x] - e.ts[x]) <= Tol ]

(* EXTENSION records (e.ext = TRUE): rejected ones are reported as observations, never as violations of C10 *)
BpmOpsClauses(e) ==
    CASE e.op = "current_bpm" -> [ current |-> IF CurrentIx(e.otl, e.t) = 0 THEN e.exc = "IndexError"
                                               ELSE e.exc = "" /\ e.out_t = e.otl[CurrentIx(e.otl, e.t)].t /\ e.out_bl = e.otl[CurrentIx(e.otl, e.t)].bl ]
      [] e.op = "snap_offsets" -> [ snap_offsets |-> e.exc = "" /\ { e.out[i] : i \in DOMAIN e.out } = SnapOffsets(e.otl, e.nths, e.last)
                                                     /\ Len(e.out) = Cardinality(SnapOffsets(e.otl, e.nths, e.last)) ]
      [] e.op = "ave_bpm" -> [ ave |-> e.exc = "" /\ Abs(e.out100 * ((e.last - e.otl[1].t) \div 1000) - WeightedSum(e.otl, e.last, 1))
                                                        <= (e.last - e.otl[1].t) \div 1000 ]

Clauses(e) == CASE e.op = "offsets" -> OffsetsClauses(e)
                [] e.op = "offsets_anch" -> AnchOffsetsClauses(e)
                [] e.op = "snaps_anch" -> AnchSnapsClauses(e)
                [] e.op \in {"current_bpm", "snap_offsets", "ave_bpm"} -> BpmOpsClauses(e)
                [] e.op = "starts"  -> StartsClauses(e)
                [] e.op = "snaps"   -> SnapsClauses(e)
                [] e.op = "beats"   -> BeatsClauses(e)
                [] e.op = "snapper" -> SnapperClauses(e)

Failing(e) == LET c == Clauses(e) IN { k \in DOMAIN c : ~c[k] }

Init == l = 1 /\ nbad = 0
Next == /\ l <= Len(TLog)
        /\ LET f == Failing(TLog[l]) IN
             /\ (f # {} => PrintT(ToJson([id |-> TLog[l].id, failing |-> f])))
             /\ nbad' = nbad + (IF f = {} THEN 0 ELSE 1)
        /\ l' = l + 1
Spec == Init /\ [][Next]_<<l, nbad>>
Done == (l = Len(TLog) + 1) => PrintT(ToJson([done |-> l - 1, bad |-> nbad]))
=============================================================================
