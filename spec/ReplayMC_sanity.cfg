SPECIFICATION Spec
CONSTANTS
  K = 2
  MaxFrames = 4
  Deltas = {10}
  Emit = FALSE
INVARIANT PipelineIsDoc
CHECK_DEADLOCK FALSE
