-------------------------------- MODULE SMMC --------------------------------
(***************************************************************************)
(* Generator of small StepMania token files: one chart of a chosen type,   *)
(* two measures with chosen row counts, up to MaxObj objects of the eight  *)
(* symbols (long notes as a head and a later tail in the same column), up  *)
(* to two tempo changes on the half-beat grid, three offsets.  Build lays  *)
(* the objects out as rows; invariants: the denotation finds exactly one   *)
(* object per generated object, heads and tails are balanced, every row    *)
(* has the chart type's width.                                             *)
(***************************************************************************)
EXTENDS SMFmt, TLC, Json

CONSTANTS Types, RowChoices, MaxObj, MaxBpm, PosSet, TailGap, OffSet, BlSet, EmitMod, Emit
VARIABLES typ, rows, objs, bpms, off, done
vars == <<typ, rows, objs, bpms, off, done>>

KeysOf(t) == CASE t = "dance-single" -> 4 [] t = "dance-threepanel" -> 3 [] t = "dance-solo" -> 6
               [] t = "kb7-single" -> 7 [] t = "dance-double" -> 8
OffsAll == {0, 0 - 50000, 125000}
OffsQ == {0 - 50000, 125000}
RowsQ == { <<4, 8>> }
RowsT == { <<4, 8>>, <<12, 4>>, <<20, 16>>, <<4, 28>> }
Offs == {0, 0 - 50000, 125000}
BLs == {50000, 25000, 37500}
Kinds == {"1", "M", "L", "F", "K", "2", "4"}
N == rows[1] + rows[2]
Used == { objs[i].i : i \in DOMAIN objs } \cup { objs[i].j : i \in { i \in DOMAIN objs : objs[i].k \in {"2", "4"} } }
Cell(i, c) == <<i, c>>
Occupied == { <<objs[i].i, objs[i].c>> : i \in DOMAIN objs } \cup
            { <<objs[i].j, objs[i].c>> : i \in { i \in DOMAIN objs : objs[i].k \in {"2", "4"} } }

Init == /\ typ \in Types /\ rows \in RowChoices /\ objs = <<>> /\ off \in OffSet /\ done = FALSE
        /\ \E bl \in BlSet : bpms = << [p48 |-> 0, bl |-> bl] >>
AddBpm == /\ ~done /\ objs = <<>> /\ Len(bpms) < MaxBpm
          /\ \E p \in {24, 192, 216}, bl \in BlSet : p > bpms[Len(bpms)].p48 /\ bpms' = Append(bpms, [p48 |-> p, bl |-> bl])
          /\ UNCHANGED <<typ, rows, objs, off, done>>
(* long notes of one column must not interleave: a new one starts after everything in that column *)
AddObj == /\ ~done /\ Len(objs) < MaxObj
          /\ \E k \in Kinds, c \in {0, KeysOf(typ) - 1}, i \in PosSet \cap 0..(N - 1) :
               /\ (IF objs = <<>> THEN TRUE ELSE objs[Len(objs)].i <= i)
               /\ <<i, c>> \notin Occupied
               /\ \A q \in DOMAIN objs : (objs[q].c = c /\ objs[q].k \in {"2", "4"}) => objs[q].j < i
               /\ IF k \in {"2", "4"}
                  THEN \E j \in (i + 1)..(N - 1) : /\ j - i \in TailGap /\ <<j, c>> \notin Occupied
                                                   /\ objs' = Append(objs, [k |-> k, c |-> c, i |-> i, j |-> j])
                  ELSE objs' = Append(objs, [k |-> k, c |-> c, i |-> i, j |-> i])
          /\ UNCHANGED <<typ, rows, bpms, off, done>>
Finish == ~done /\ done' = TRUE /\ UNCHANGED <<typ, rows, objs, bpms, off>>
Next == AddBpm \/ AddObj \/ Finish
Spec == Init /\ [][Next]_vars

(* ---- the objects as the sparse cell list of the chart (file order) ---- *)
RowOf(i) == IF i < rows[1] THEN [m |-> 1, r |-> i + 1, n |-> rows[1]] ELSE [m |-> 2, r |-> i - rows[1] + 1, n |-> rows[2]]
CellSet == { [i |-> objs[q].i, c |-> objs[q].c, s |-> objs[q].k] : q \in DOMAIN objs } \cup
           { [i |-> objs[q].j, c |-> objs[q].c, s |-> "3"] : q \in { q \in DOMAIN objs : objs[q].k \in {"2", "4"} } }
RECURSIVE CellSeq(_)
CellSeq(S) == IF S = {} THEN <<>>
              ELSE LET x == CHOOSE x \in S : \A y \in S : x.i < y.i \/ (x.i = y.i /\ x.c <= y.c) IN
                   << [m |-> RowOf(x.i).m, r |-> RowOf(x.i).r, c |-> x.c + 1, n |-> RowOf(x.i).n, s |-> x.s] >> \o CellSeq(S \ {x})
Chart == [type |-> typ, desc |-> "", diff |-> "Hard", meter |-> "7", radar |-> "0,0,0,0,0", keys |-> KeysOf(typ),
          nfields |-> 6, cells |-> CellSeq(CellSet), rows |-> rows, widths |-> <<KeysOf(typ)>>, symbols |-> <<"0">>]
FBpms == [k \in DOMAIN bpms |-> [p |-> bpms[k].p48 * 100, bl |-> bpms[k].bl]]
File == [off |-> off, bpms |-> FBpms, charts |-> <<Chart>>, junk |-> 0, stops |-> <<>>]

DenotationTotal == done =>
    LET f == File ch == Chart IN
    /\ Balanced(ch)
    /\ Cardinality(Simple(f, ch, "1")) = Cardinality({ q \in DOMAIN objs : objs[q].k = "1" })
    /\ Cardinality(Simple(f, ch, "M")) = Cardinality({ q \in DOMAIN objs : objs[q].k = "M" })
    /\ Cardinality(Long(f, ch, "hold")) = Cardinality({ q \in DOMAIN objs : objs[q].k = "2" })
    /\ Cardinality(Long(f, ch, "roll")) = Cardinality({ q \in DOMAIN objs : objs[q].k = "4" })
    /\ \A d \in Long(f, ch, "hold") \cup Long(f, ch, "roll") : d.n > 0
TimesIncrease == done => \A k \in 1..Len(bpms)-1 : TStart(FBpms, off, k) < TStart(FBpms, off, k+1)

RECURSIVE HSum(_)
HSum(s) == IF s = <<>> THEN 0 ELSE s[1].i * 3 + s[1].c * 5 + s[1].j * 11 + (IF s[1].k \in {"2", "4"} THEN 1 ELSE 0) + HSum(Tail(s))
Hash == HSum(objs) + Len(bpms) * 7 + bpms[Len(bpms)].p48 + rows[1]
EmitScn == (Emit /\ done /\ Hash % EmitMod = 0) => PrintT(ToJson([kind |-> "sm", type |-> typ, rows |-> rows, objs |-> objs, bpms |-> bpms, off |-> off,
                             \* the times the spec assigns (used to build the same set in memory for the writer)
                             times |-> [q \in DOMAIN objs |->
                                 [h |-> RowTicks(FBpms, off, RowOf(objs[q].i).m - 1, RowOf(objs[q].i).r - 1, RowOf(objs[q].i).n),
                                  t |-> RowTicks(FBpms, off, RowOf(objs[q].j).m - 1, RowOf(objs[q].j).r - 1, RowOf(objs[q].j).n)]],
                             starts |-> [k \in DOMAIN bpms |-> TStart(FBpms, off, k)]]))
=============================================================================
