SPECIFICATION Spec
CONSTRAINT Done
