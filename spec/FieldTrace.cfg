SPECIFICATION Spec
CONSTRAINT Done
