------------------------------- MODULE OJNFmt -------------------------------
(***************************************************************************)
(* C07: what an O2Jam .ojn byte string denotes.  The bytes are decoded by   *)
(* harness/ojn_bytes.py (struct layout of the 300-byte header and of the    *)
(* packages); this module interprets the decoded tokens.                    *)
(*   file.bl0    beat length (ticks) of the header bpm                      *)
(*   file.lvls   three difficulties, each a seq of packages                 *)
(*               [m |-> measure, ch |-> channel, n |-> slot count,          *)
(*                evs |-> seq of [i, kind (0 hit, 2 head, 3 tail), vol, pan, bl]] *)
(*   channel 1 = tempo (bl = beat length of the event), 2..8 = columns 0..6 *)
(* Slot i of n in a package of measure m sits at measure m + i/n, four      *)
(* beats per measure (no measure-fraction packages).                        *)
(***************************************************************************)
EXTENDS BeatTime, TLC, SequencesExt

Evs(lvl) == UNION { { <<P, k>> : k \in DOMAIN lvl[P].evs } : P \in DOMAIN lvl }
Pm(lvl, x) == lvl[x[1]].m
Pn(lvl, x) == lvl[x[1]].n
Pi(lvl, x) == lvl[x[1]].evs[x[2]].i
Ev(lvl, x) == lvl[x[1]].evs[x[2]]
PosLt(lvl, x, y) == Pm(lvl, x) < Pm(lvl, y) \/ (Pm(lvl, x) = Pm(lvl, y) /\ Pi(lvl, x) * Pn(lvl, y) < Pi(lvl, y) * Pn(lvl, x))

(* EXTENSION (channel 0, outside the listed properties): a package [m, ch = 0] carries f1000: measure m is f1000/1000 of a   *)
(* 4-beat measure long (only that measure).  Without such packages every measure is 4 beats and the formulas are exact.     *)
SigPkgs(lvl) == { P \in DOMAIN lvl : lvl[P].ch = 0 /\ lvl[P].evs # <<>> }
MLen(lvl, m) == LET S == { P \in SigPkgs(lvl) : lvl[P].m = m } IN
                IF S = {} THEN 19200 ELSE (19200 * lvl[CHOOSE P \in S : TRUE].evs[1].f1000) \div 1000
RECURSIVE MStart(_, _)
MStart(lvl, m) == IF SigPkgs(lvl) = {} THEN 19200 * m ELSE IF m = 0 THEN 0 ELSE MStart(lvl, m - 1) + MLen(lvl, m - 1)
P4800(lvl, x) == MStart(lvl, Pm(lvl, x)) + (MLen(lvl, Pm(lvl, x)) * Pi(lvl, x)) \div Pn(lvl, x)
(* sorted by position with TLC!SortSeq (Java); ties keep package order *)
SortTempo(lvl, S) ==
    LET keyed == { [p |-> P4800(lvl, x), bl |-> Ev(lvl, x).bl, x |-> x] : x \in S }
        srt == SortSeq(SetToSeq(keyed), LAMBDA a, b : a.p < b.p \/ (a.p = b.p /\ (a.x[1] < b.x[1] \/ (a.x[1] = b.x[1] /\ a.x[2] < b.x[2]))))
    IN  [k \in DOMAIN srt |-> [p |-> srt[k].p, bl |-> srt[k].bl]]
TempoEvents(lvl) == { x \in Evs(lvl) : lvl[x[1]].ch = 1 }
(* header tempo from 0, then every tempo event in position order *)
TempoList(f, lvl) ==
    LET ev == SortTempo(lvl, TempoEvents(lvl)) IN
    IF ev # <<>> /\ ev[1].p = 0 THEN ev ELSE << [p |-> 0, bl |-> f.bl0] >> \o ev

EvTicks(f, lvl, x) ==
    IF SigPkgs(lvl) = {}
    THEN BeatToTicks(TempoList(f, lvl), 0, 4 * Pm(lvl, x) + (4 * Pi(lvl, x)) \div Pn(lvl, x), (4 * Pi(lvl, x)) % Pn(lvl, x), Pn(lvl, x))
    ELSE LET p == P4800(lvl, x) IN BeatToTicks(TempoList(f, lvl), 0, p \div 4800, p % 4800, 4800)

Col(lvl, c) == { x \in Evs(lvl) : lvl[x[1]].ch = c + 2 }
RECURSIVE Ordered(_, _)
Ordered(lvl, S) == IF S = {} THEN <<>>
                   ELSE LET x == CHOOSE x \in S : \A y \in S : x = y \/ PosLt(lvl, x, y) IN <<x>> \o Ordered(lvl, S \ {x})
RECURSIVE Fold(_, _, _, _)
(* a head (2) pairs with the next tail (3) of its column *)
Fold(lvl, evs, open, acc) ==
    IF evs = <<>> THEN [acc EXCEPT !.bad = @ \/ open # <<>>]
    ELSE LET x == Head(evs) k == Ev(lvl, x).kind IN
         IF k = 0 THEN Fold(lvl, Tail(evs), open, [acc EXCEPT !.hits = @ \cup {x}])
         ELSE IF k = 2 THEN Fold(lvl, Tail(evs), x, [acc EXCEPT !.bad = @ \/ open # <<>>])
         ELSE IF open = <<>> THEN Fold(lvl, Tail(evs), <<>>, [acc EXCEPT !.bad = TRUE])
         ELSE Fold(lvl, Tail(evs), <<>>, [acc EXCEPT !.holds = @ \cup { <<open, x>> }])
ColObjs(lvl, c) == Fold(lvl, Ordered(lvl, Col(lvl, c)), <<>>, [hits |-> {}, holds |-> {}, bad |-> FALSE])

DenHits(f, lvl) == UNION { { [t |-> EvTicks(f, lvl, x), c |-> c, vol |-> Ev(lvl, x).vol, pan |-> Ev(lvl, x).pan] :
                             x \in ColObjs(lvl, c).hits } : c \in 0..6 }
DenHolds(f, lvl) == UNION { { [t |-> EvTicks(f, lvl, p[1]), c |-> c, n |-> EvTicks(f, lvl, p[2]) - EvTicks(f, lvl, p[1]),
                               vol |-> Ev(lvl, p[1]).vol, pan |-> Ev(lvl, p[1]).pan] : p \in ColObjs(lvl, c).holds } : c \in 0..6 }
Paired(lvl) == \A c \in 0..6 : ~ColObjs(lvl, c).bad

HitsMatch(D, lst, tol) ==
    /\ Cardinality(D) = Len(lst)
    /\ \A d \in D : \E i \in DOMAIN lst : lst[i].c = d.c /\ Abs(lst[i].t - d.t) <= tol /\ lst[i].vol = d.vol /\ lst[i].pan = d.pan
    /\ \A i \in DOMAIN lst : \E d \in D : lst[i].c = d.c /\ Abs(lst[i].t - d.t) <= tol
HoldsMatch(D, lst, tol) ==
    /\ Cardinality(D) = Len(lst)
    /\ \A d \in D : \E i \in DOMAIN lst : /\ lst[i].c = d.c /\ Abs(lst[i].t - d.t) <= tol /\ Abs(lst[i].t + lst[i].n - d.t - d.n) <= tol
                                          /\ lst[i].vol = d.vol /\ lst[i].pan = d.pan
    /\ \A i \in DOMAIN lst : \E d \in D : lst[i].c = d.c /\ Abs(lst[i].t - d.t) <= tol /\ Abs(lst[i].t + lst[i].n - d.t - d.n) <= tol
(* the chart's tempo list is the header tempo at 0 and every tempo event at its time *)
TempoMatch(f, lvl, bpms, tol) ==
    LET tl == TempoList(f, lvl)
        st == Starts(tl, 0) IN
    /\ \A k \in DOMAIN tl : \E i \in DOMAIN bpms : Abs(bpms[i].t - st[k]) <= tol /\ Abs(bpms[i].bl - tl[k].bl) <= 1
    /\ \A i \in DOMAIN bpms : \E k \in DOMAIN tl : Abs(bpms[i].t - st[k]) <= tol
                                                  \/ (bpms[i].t = 0 /\ bpms[i].bl = f.bl0)
=============================================================================
