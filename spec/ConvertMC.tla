----------------------------- MODULE ConvertMC -----------------------------
(***************************************************************************)
(* Code-shaped model of ConvertBase.cast behind every converter, driven by *)
(* every history of the source list.  A list is a sequence of rows         *)
(* [lab |-> pandas row label, val |-> payload].  The history operations    *)
(* change the labels exactly as the library does:                          *)
(*   Filter / FilterMid keep labels (gaps) SortRev  permutes rows + labels *)
(*   Append   relabels 0..n-1 (ignore_index)                               *)
(*   StackWr  labels become the global positions in the stacked frame      *)
(*   Rate     deep copy + stack write      Copy     keeps labels           *)
(* cast() creates a buffer with labels 0..n-1 and assigns each column      *)
(*   LabelAligned = TRUE : by row label (a pandas Series is assigned)       *)
(*   LabelAligned = FALSE: by position  (the values are assigned)           *)
(* Invariant Preserved: the converted list is the source's bag of values.  *)
(***************************************************************************)
EXTENDS Convert, TLC, Json

CONSTANTS MaxRows, Depth, LabelAligned, Emit
VARIABLES src, hist, out, base
vars == <<src, hist, out, base>>

NaN == 0 - 1
Mk(n) == [i \in 1..n |-> [lab |-> i - 1, val |-> 10 * i]]

Init == /\ \E n \in 0..MaxRows : src = Mk(n)
        /\ hist = <<>> /\ out = <<>> /\ base \in {0, 2}      \* rows of the lists stacked before this one

Ops == Len(hist)
Do(name, ns) == /\ Ops < Depth /\ out = <<>> /\ src' = ns /\ hist' = Append(hist, name) /\ UNCHANGED <<out, base>>

Filter  == Len(src) >= 1 /\ Do("filter", Tail(src))
FilterMid == Len(src) >= 2 /\ Do("filter_mid", <<src[1]>> \o SubSeq(src, 3, Len(src)))    \* keeps the first label, leaves a gap inside
SortRev == Do("sort_rev", [i \in DOMAIN src |-> src[Len(src) + 1 - i]])
Append1 == Do("append", [i \in 1..Len(src)+1 |-> IF i <= Len(src) THEN [lab |-> i - 1, val |-> src[i].val]
                                                   ELSE [lab |-> i - 1, val |-> 5]])
StackWr == Do("stack_write", [i \in DOMAIN src |-> [lab |-> base + i - 1, val |-> src[i].val]])
Rate    == Do("rate", [i \in DOMAIN src |-> [lab |-> base + i - 1, val |-> src[i].val]])
Copy    == Do("deepcopy", src)

Cast == /\ out = <<>>
        /\ out' = << [k \in 1..Len(src) |->
                        IF LabelAligned
                        THEN LET m == { j \in DOMAIN src : src[j].lab = k - 1 }
                             IN IF m = {} THEN NaN ELSE src[CHOOSE j \in m : TRUE].val
                        ELSE src[k].val] >>
        /\ hist' = Append(hist, "convert")
        /\ UNCHANGED <<src, base>>

Next == Filter \/ FilterMid \/ SortRev \/ Append1 \/ StackWr \/ Rate \/ Copy \/ Cast
Spec == Init /\ [][Next]_vars

Preserved == out # <<>> => SameBag([i \in DOMAIN src |-> <<src[i].val>>], [i \in DOMAIN out[1] |-> <<out[1][i]>>])

EmitScn == (Emit /\ out # <<>>) => PrintT(ToJson([kind |-> "convhist", hist |-> hist, n |-> Len(src), base |-> base]))
=============================================================================
