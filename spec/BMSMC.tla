-------------------------------- MODULE BMSMC --------------------------------
(***************************************************************************)
(* Generator of small BMS token files for each of the five layouts: up to  *)
(* MaxObj lane objects (plain notes and LNOBJ ends; an LNOBJ end only      *)
(* after a plain note of its lane) at positions i/d of measures 0..2 with  *)
(* d in {1,2,3,4}, up to MaxTempo tempo events (channel 03 integer bpm or  *)
(* channel 08 extended bpm).  Every object is its own `#mmmcc:` line, so   *)
(* several lines share a measure and channel.  Invariants: every generated *)
(* object denotes exactly one hit or one end of a hold; LN pairing total.  *)
(***************************************************************************)
EXTENDS BMSFmt, TLC, Json

CONSTANTS Layouts, MaxObj, MaxTempo, Ds, MaxM, Ids, Emit, EmitMod
VARIABLES lay, objs, tempo, done
vars == <<lay, objs, tempo, done>>

LnObj == "ZZ"
MaxCol == CHOOSE c \in { Layout(lay)[x] : x \in DOMAIN Layout(lay) } : \A y \in { Layout(lay)[x] : x \in DOMAIN Layout(lay) } : y <= c
ChOf(name, col) == CHOOSE c \in DOMAIN Layout(name) : Layout(name)[c] = col
PosSet == { <<m, i, d>> : m \in 0..MaxM, d \in Ds, i \in 0..3 }
ValidPos(p) == p[2] < p[3]
Lt(p, q) == p[1] < q[1] \/ (p[1] = q[1] /\ p[2] * q[3] < q[2] * p[3])
Init == lay \in Layouts /\ objs = <<>> /\ tempo = <<>> /\ done = FALSE
LaneOf(col) == { k \in DOMAIN objs : objs[k].col = col }
LastIn(col) == LET S == LaneOf(col) IN IF S = {} THEN 0 ELSE CHOOSE k \in S : \A j \in S : j <= k
AddObj == /\ ~done /\ Len(objs) < MaxObj /\ tempo = <<>>
          /\ \E col \in {0, MaxCol}, p \in { p \in PosSet : ValidPos(p) }, id \in Ids \cup {LnObj} :
               LET last == LastIn(col) IN
               /\ (IF last = 0 THEN TRUE ELSE Lt(objs[last].pos, p))
               /\ (id = LnObj => (IF last = 0 THEN FALSE ELSE objs[last].id # LnObj))
               /\ (IF objs = <<>> THEN TRUE ELSE ~Lt(p, objs[Len(objs)].pos))
               /\ objs' = Append(objs, [col |-> col, pos |-> p, id |-> id])
          /\ UNCHANGED <<lay, tempo, done>>
AddTempo == /\ ~done /\ Len(tempo) < MaxTempo
            /\ \E p \in { p \in PosSet : ValidPos(p) /\ p[3] \in {1, 2} }, ch \in {"03", "08"}, bl \in {25000, 40000} :
                 /\ (IF tempo = <<>> THEN TRUE ELSE Lt(tempo[Len(tempo)].pos, p))
                 /\ tempo' = Append(tempo, [pos |-> p, ch |-> ch, bl |-> bl])
            /\ UNCHANGED <<lay, objs, done>>
Finish == ~done /\ done' = TRUE /\ UNCHANGED <<lay, objs, tempo>>
Next == AddObj \/ AddTempo \/ Finish
Spec == Init /\ [][Next]_vars

File == [bpm0 |-> 50000, lnobj |-> LnObj, wavs |-> << [id |-> "01", file |-> "a.wav"], [id |-> "02", file |-> "b.wav"] >>,
         exbpm |-> <<>>, hdr |-> <<>>, sigs |-> <<>>,
         lines |-> [k \in 1..(Len(objs) + Len(tempo)) |->
             IF k <= Len(objs)
             THEN [m |-> objs[k].pos[1], ch |-> ChOf(lay, objs[k].col), d |-> objs[k].pos[3],
                   objs |-> << [i |-> objs[k].pos[2], id |-> objs[k].id, val |-> 0] >>]
             ELSE LET t == tempo[k - Len(objs)] IN
                  [m |-> t.pos[1], ch |-> t.ch, d |-> t.pos[3], objs |-> << [i |-> t.pos[2], id |-> "T", val |-> t.bl] >>]]]

DenotationTotal == done =>
    LET f == File l == Layout(lay) IN
    /\ Paired(f, l)
    /\ Cardinality(DenHits(f, l)) + 2 * Cardinality(DenHolds(f, l)) = Len(objs)
    /\ Cardinality(DenHolds(f, l)) = Cardinality({ k \in DOMAIN objs : objs[k].id = LnObj })
    /\ \A h \in DenHolds(f, l) : h.n > 0

(* the one-pass start times used by the validators are TStart *)
StartsAgree == done => LET tl == TempoList(File) IN Len(Starts(tl, 0)) = Len(tl) /\ \A k \in DOMAIN tl : Starts(tl, 0)[k] = TStart(tl, 0, k)

RECURSIVE HSum(_)
HSum(s) == IF s = <<>> THEN 0 ELSE s[1].col * 3 + s[1].pos[1] * 5 + s[1].pos[2] * 7 + s[1].pos[3] * 11 + HSum(Tail(s))
EmitScn == (Emit /\ done /\ (HSum(objs) + Len(tempo)) % EmitMod = 0) =>
    PrintT(ToJson([kind |-> "bms", layout |-> lay, file |-> File,
                   hits |-> DenHits(File, Layout(lay)), holds |-> DenHolds(File, Layout(lay)),
                   tempo |-> [k \in DOMAIN TempoList(File) |-> [t |-> TStart(TempoList(File), 0, k), bl |-> TempoList(File)[k].bl]]]))
=============================================================================
