SPECIFICATION Spec
CONSTANTS
  MaxNotes = 3
  Times = {0, 1, 2, 3}
  NCols = 3
  Vs = {0, 1, 2}
  Hs <- HsAll
  Emit = TRUE
INVARIANT ImplSatisfiesRef
INVARIANT ProductSizes
CONSTRAINT EmitScn
