SPECIFICATION Spec
CONSTANTS
  MaxTp = 3
  MaxSv = 2
  Times = {0, 1, 2, 3, 4}
  BpmVals = {600, 1200, 1800}
  Mults = {5000, 15000, 20000}
  Emit = TRUE
INVARIANT SvImplRefinesRef
INVARIANT DominantSane
INVARIANT DurationsCover
CONSTRAINT EmitScn
