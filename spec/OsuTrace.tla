------------------------------ MODULE OsuTrace ------------------------------
(* Trace validator for C01. *)
EXTENDS OsuFmt, TLC, Json, IOUtils
VARIABLES l, nbad
TLog == ndJsonDeserialize(IOEnv.TRACE_FILE)


Clauses(e) ==
    IF e.exc # "" THEN [ no_exc |-> FALSE ]
    ELSE CASE e.op = "read" ->       \* the chart returned by the reader is exactly what the text denotes
           DenotesClauses(e.file, e.chart, 0)
      [] e.op = "write" ->           \* the written text is well formed and denotes the chart within 1 ms
           LET d == DenotesClauses(e.file, e.chart, 1000)  w == WellFormed(e.file) IN
           [ k \in DOMAIN d \cup DOMAIN w |-> IF k \in DOMAIN d THEN d[k] ELSE w[k] ]
      [] e.op = "generations" ->     \* every later generation equals the first written one
           [ no_drift |-> \A i \in DOMAIN e.gens : e.gens[i] = e.gens[1] ]

Failing(e) == LET c == Clauses(e) IN { k \in DOMAIN c : ~c[k] }
Init == l = 1 /\ nbad = 0
Next == /\ l <= Len(TLog)
        /\ LET f == Failing(TLog[l]) IN
             /\ (f # {} => PrintT(ToJson([id |-> TLog[l].id, failing |-> f])))
             /\ nbad' = nbad + (IF f = {} THEN 0 ELSE 1)
        /\ l' = l + 1
Spec == Init /\ [][Next]_<<l, nbad>>
Done == (l = Len(TLog) + 1) => PrintT(ToJson([done |-> l - 1, bad |-> nbad]))
=============================================================================
