SPECIFICATION Spec
CONSTANTS
  MaxSrc = 3
  MaxTgt = 2
  Vols0 = {10, 20}
  FilesSet = {"a", "b"}
  DropOverflowFiles = TRUE
  Emit = FALSE
INVARIANT ImplSatisfiesRef
CONSTRAINT EmitScn
