------------------------------- MODULE SnapMC -------------------------------
(***************************************************************************)
(* Bounded model of the position arithmetic (SnapArith).                   *)
(*  - phase "norm": every (measure, beat, metronome) of the bounds; the    *)
(*    code-shaped normalisation agrees with the documented meaning for     *)
(*    measure >= 0 (CodeIsDocNonNeg); CodeIsDocAll is a SANITY property    *)
(*    that must be violated (SnapMC_sanity.cfg): Snap(-1, 6 beats, 4).     *)
(*  - find_lcm as a state machine: one action per loop iteration (Step),   *)
(*    Finish fills the untouched slots.  Invariants: every assigned value  *)
(*    is a multiple of the element it stands for and, if it was changed,   *)
(*    below the threshold.                                                 *)
(* Scenarios (inputs with the outcome the transcription gives) are printed *)
(* for the conformance harness.                                            *)
(***************************************************************************)
EXTENDS SnapArith, TLC, Json

CONSTANTS Mets, MaxM, MaxLen, Dens, Ths, Emit
VARIABLES phase, snap, orig, a, res, i, j, th
vars == <<phase, snap, orig, a, res, i, j, th>>

Snaps == { [m |-> m, b |-> b, met |-> met] : m \in (0 - MaxM)..MaxM, b \in (0 - 3 * 4 * G)..(3 * 4 * G), met \in Mets }
Lists == UNION { [1..n -> Dens] : n \in 1..MaxLen }

Init == \/ /\ phase = "norm" /\ snap \in Snaps
           /\ orig = <<>> /\ a = <<>> /\ res = <<>> /\ i = 0 /\ j = 0 /\ th = 0
        \/ /\ phase = "lcm" /\ orig \in Lists /\ th \in Ths
           /\ a = orig /\ res = [k \in DOMAIN orig |-> 0] /\ i = 1 /\ j = 1
           /\ snap = [m |-> 0, b |-> 0, met |-> 1]

(* one iteration of `for i: for j:` *)
AdvanceIJ == IF j < Len(orig) THEN i' = i /\ j' = j + 1 ELSE i' = i + 1 /\ j' = 1
Step == /\ phase = "lcm" /\ i <= Len(orig)
        /\ AdvanceIJ
        /\ IF i = j \/ a[i] = 0 \/ a[j] = 0 THEN UNCHANGED <<a, res>>
           ELSE LET l == Lcm(a[i], a[j]) IN
                IF l < th THEN /\ a' = [a EXCEPT ![i] = l, ![j] = 0]
                               /\ res' = [res EXCEPT ![j] = l]
                ELSE UNCHANGED <<a, res>>
        /\ UNCHANGED <<phase, snap, orig, th>>
Finish == /\ phase = "lcm" /\ i = Len(orig) + 1
          /\ res' = [k \in DOMAIN res |-> IF res[k] = 0 THEN a[k] ELSE res[k]]
          /\ phase' = "lcm_done"
          /\ UNCHANGED <<snap, orig, a, i, j, th>>
Next == Step \/ Finish
Spec == Init /\ [][Next]_vars

TypeOK == phase \in {"norm", "lcm", "lcm_done"}

CodeIsDocNonNeg == (phase = "norm" /\ snap.m >= 0) => NormCode(snap.m, snap.b, snap.met) = NormDoc(snap.m, snap.b, snap.met)
CodeIsDocAll    == phase = "norm" => NormCode(snap.m, snap.b, snap.met) = NormDoc(snap.m, snap.b, snap.met)
(* canonical form and value are kept whenever the code answers *)
NormSound == phase = "norm" =>
    LET r == NormCode(snap.m, snap.b, snap.met) IN
    (~r.err /\ snap.m >= 0) => /\ r.b >= 0 /\ r.b < snap.met * G /\ r.m >= 0
                               /\ Total(r.m, r.b, snap.met) = Total(snap.m, snap.b, snap.met)

(* find_lcm: an absorbed slot never holds a live value; every assigned result is a multiple of its element and < threshold *)
LcmInv == phase \in {"lcm", "lcm_done"} =>
    \A k \in DOMAIN orig :
        /\ (res[k] # 0 => res[k] % orig[k] = 0)
        /\ (a[k] # 0 => a[k] % orig[k] = 0 /\ (a[k] = orig[k] \/ a[k] < th))
        /\ (phase = "lcm" /\ a[k] = 0 => res[k] # 0)
LcmDone == phase = "lcm_done" =>
    /\ \A k \in DOMAIN orig : res[k] # 0 /\ res[k] % orig[k] = 0 /\ (res[k] = orig[k] \/ res[k] < th)
    /\ res = FindLcm(orig, th)          \* the functional form the trace validator uses

EmitScn ==
    /\ (Emit /\ phase = "norm") =>
          PrintT(ToJson([kind |-> "norm", m |-> snap.m, b |-> snap.b, met |-> snap.met, g |-> G]))
    /\ (Emit /\ phase = "lcm_done") =>
          PrintT(ToJson([kind |-> "lcm", a |-> orig, th |-> th, out |-> res]))
=============================================================================
