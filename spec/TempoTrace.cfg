SPECIFICATION Spec
CONSTRAINT Done
