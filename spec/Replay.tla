------------------------------- MODULE Replay -------------------------------
(***************************************************************************)
(* EXTENSION beyond the listed properties: osu!mania replay parsing         *)
(* (reamber/algorithms/osu/parse_replay.py).                                *)
(*                                                                         *)
(* A replay is a sequence of frames [d |-> ms since the previous frame,     *)
(* s |-> bit mask of the keys held].  K = number of keys.                   *)
(*                                                                         *)
(* DocActions: what the docstring promises -- "the actions of the replay":  *)
(*   no key is held before the first frame; a frame at time T (sum of the   *)
(*   deltas so far) presses every key whose bit turns on and releases every *)
(*   key whose bit turns off.                                               *)
(* CodeActions: the pandas pipeline of parse_replay_actions, step by step:  *)
(*   frames with delta 0 are dropped; rows whose state equals the previous  *)
(*   remaining row are dropped (and always the first row); the first row    *)
(*   that is left only serves as the baseline of diff() and is dropped too; *)
(*   every later row yields the bit changes against the row before it.      *)
(* NearestError: parse_replays_error's "minimum absolute distance matching".*)
(***************************************************************************)
EXTENDS Integers, Sequences, FiniteSets

Abs(x) == IF x < 0 THEN -x ELSE x
RECURSIVE Pow2(_)
Pow2(c) == IF c = 0 THEN 1 ELSE 2 * Pow2(c - 1)
Bit(s, c) == (s \div Pow2(c)) % 2

RECURSIVE TimeOf(_, _)
TimeOf(frames, i) == IF i = 0 THEN 0 ELSE TimeOf(frames, i - 1) + frames[i].d

(* actions of going from state a to state b at time t, lowest column first *)
RECURSIVE Changes(_, _, _, _, _)
Changes(a, b, t, c, K) ==
    IF c = K THEN <<>>
    ELSE (IF Bit(a, c) = Bit(b, c) THEN <<>> ELSE << [t |-> t, c |-> c, press |-> Bit(b, c) = 1] >>) \o Changes(a, b, t, c + 1, K)

RECURSIVE DocFrom(_, _, _, _)
DocFrom(frames, i, prev, K) ==
    IF i > Len(frames) THEN <<>>
    ELSE Changes(prev, frames[i].s, TimeOf(frames, i), 0, K) \o DocFrom(frames, i + 1, frames[i].s, K)
DocActions(frames, K) == DocFrom(frames, 1, 0, K)

(* ---- the pipeline ---- *)
(* rows [t, s] of the frames with d # 0 (the cumulative sum runs over the remaining rows, which is the same time) *)
RECURSIVE Rows(_, _, _)
Rows(frames, i, t) ==
    IF i > Len(frames) THEN <<>>
    ELSE IF frames[i].d = 0 THEN Rows(frames, i + 1, t)
    ELSE << [t |-> t + frames[i].d, s |-> frames[i].s] >> \o Rows(frames, i + 1, t + frames[i].d)
(* rows whose state differs from the row before (never the first) *)
Changed(rows) == SelectSeq([i \in DOMAIN rows |-> [t |-> rows[i].t, s |-> rows[i].s, keep |-> i > 1 /\ rows[i].s # rows[IF i > 1 THEN i - 1 ELSE 1].s]],
                           LAMBDA r : r.keep)
RECURSIVE CodeFrom(_, _, _)
CodeFrom(ch, j, K) == IF j > Len(ch) THEN <<>> ELSE Changes(ch[j-1].s, ch[j].s, ch[j].t, 0, K) \o CodeFrom(ch, j + 1, K)
CodeActions(frames, K) == CodeFrom(Changed(Rows(frames, 1, 0)), 2, K)

(* the documented actions the pipeline keeps when every delta is positive: those after the first state-changing frame *)
Baseline(frames) == LET S == { i \in 2..Len(frames) : frames[i].s # frames[i-1].s } IN
                    IF S = {} THEN Len(frames) + 1 ELSE CHOOSE i \in S : \A j \in S : i <= j
DocAfterBaseline(frames, K) ==
    LET b == Baseline(frames) IN
    IF b > Len(frames) THEN <<>> ELSE DocFrom(frames, b + 1, frames[b].s, K)

Range(s) == { s[i] : i \in DOMAIN s }
SameBag(s1, s2) ==
    /\ Len(s1) = Len(s2)
    /\ \A r \in Range(s1) \cup Range(s2) :
          Cardinality({ i \in DOMAIN s1 : s1[i] = r }) = Cardinality({ i \in DOMAIN s2 : s2[i] = r })

(* error of a chart time against the replay times of its column: chart - nearest replay time (the first of equally near ones) *)
NearestError(mt, reps) ==
    LET best == CHOOSE j \in DOMAIN reps : \A k \in DOMAIN reps : Abs(mt - reps[j]) < Abs(mt - reps[k]) \/ (Abs(mt - reps[j]) = Abs(mt - reps[k]) /\ j <= k)
    IN  mt - reps[best]
=============================================================================
