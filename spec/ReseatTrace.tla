----------------------------- MODULE ReseatTrace -----------------------------
(* Trace validator for C11: each record is one real reseating call. *)
EXTENDS Reseat, TLC, Json, IOUtils

VARIABLES l, nbad
TLog == ndJsonDeserialize(IOEnv.TRACE_FILE)

RECURSIVE OutBeats(_, _)
OutBeats(out, j) == IF j <= 1 THEN 0 ELSE OutBeats(out, j-1) + (out[j].m - out[j-1].m) * out[j-1].met

Clauses(e) ==
    IF e.exc # "" THEN [ wf_input |-> WellFormedTlDup(e.tl, e.G), no_exc |-> FALSE ]
    ELSE
    LET own == Len(e.ot) = Len(e.out) /\ e.via # "fn"
        mono == \A j \in 1..Len(e.out)-1 : e.out[j].m <= e.out[j+1].m
        ot  == IF own THEN e.ot ELSE [j \in DOMAIN e.out |-> OutStart(e.out, j)]
        tol == IF own THEN 2 ELSE 2 + (IF mono THEN OutBeats(e.out, Len(e.out)) ELSE 0)
        c   == ReseatClauses(e.tl, e.G, e.out, ot, tol)
    IN  [ k \in DOMAIN c \cup {"wf_input", "no_exc", "own_times"} |->
            IF k = "wf_input" THEN WellFormedTlDup(e.tl, e.G)
            ELSE IF k = "no_exc" THEN TRUE
            ELSE IF k = "own_times" THEN
                 \* the times the code reports agree with integrating its own measures
                 (own /\ mono) => \A j \in DOMAIN e.out :
                      Abs(e.ot[j] - OutStart(e.out, j)) <= 2 + OutBeats(e.out, Len(e.out))
            ELSE c[k] ]

Failing(e) == LET c == Clauses(e) IN { k \in DOMAIN c : ~c[k] }

(* Which "extend" branch (remainder in (0, 1/1000] of a measure or of a beat) the input reaches,
   computed from the input alone; printed with a rejection so that a recorded finding can be
   identified by its input class. *)
ExtendTag(e) ==
    LET in == e.tl
        D(k) == StartTicks(in, e.G, 0, k+1) - StartTicks(in, e.G, 0, k)
        ML(k) == in[k].bl * in[k].met
        BpmExt(k) == D(k) % ML(k) > 0 /\ (D(k) % ML(k)) <= ML(k) \div 1000
        MetExt(k) == ~BpmExt(k) /\ D(k) % in[k].bl > 0 /\ (D(k) % in[k].bl) <= in[k].bl \div 1000
        K == 1..Len(in)-1
    IN  IF \E k \in K : MetExt(k) THEN "ext_metronome"
        ELSE IF \E k \in K : BpmExt(k) /\ D(k) < ML(k) THEN "ext_bpm_first_measure"
        ELSE IF \E k \in K : BpmExt(k) THEN "ext_bpm"
        ELSE "plain"

Init == l = 1 /\ nbad = 0
Next == /\ l <= Len(TLog)
        /\ LET f == Failing(TLog[l]) IN
             /\ (f # {} => PrintT(ToJson([id |-> TLog[l].id, failing |-> f, tag |-> ExtendTag(TLog[l])])))
             /\ nbad' = nbad + (IF f = {} THEN 0 ELSE 1)
        /\ l' = l + 1
Spec == Init /\ [][Next]_<<l, nbad>>
Done == (l = Len(TLog) + 1) => PrintT(ToJson([done |-> l - 1, bad |-> nbad]))
=============================================================================
