SPECIFICATION Spec
CONSTANTS
  Rates <- RatesT
  Depth = 3
  Emit = TRUE
INVARIANT Composition
INVARIANT BeatInvariant
INVARIANT Identity
CONSTRAINT EmitScn
