SPECIFICATION Spec
CONSTRAINT Done
