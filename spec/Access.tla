------------------------------- MODULE Access -------------------------------
(***************************************************************************)
(* EXTENSION beyond the listed properties: typed access to a chart's object *)
(* lists, `chart[T]` and `chart[T] = lists` (Map.__getitem__/__setitem__,   *)
(* the `notes` property, MapSet.__getitem__/__setitem__).                   *)
(*                                                                         *)
(* A chart is a sequence of lists [name, anc, id]: `anc` the set of list     *)
(* classes the list is an instance of, `id` the identity of the list object.*)
(*   Get(objs, T)        the lists that are instances of T, in chart order; *)
(*                       IndexError when there is none                      *)
(*   SetDoc(objs, T, v)  the k-th such list is replaced by v[k]             *)
(*   SetCode(objs, T, v) what the code does: it assigns into the temporary  *)
(*                       list that Get built, so the chart keeps its lists  *)
(***************************************************************************)
EXTENDS Integers, Sequences, FiniteSets

Matching(objs, T) == { k \in DOMAIN objs : T \in objs[k].anc }
Get(objs, T) == SelectSeq(objs, LAMBDA o : T \in o.anc)
Rank(objs, T, k) == Cardinality({ j \in Matching(objs, T) : j <= k })
SetDoc(objs, T, v) == [k \in DOMAIN objs |-> IF T \in objs[k].anc THEN [objs[k] EXCEPT !.id = v[Rank(objs, T, k)]] ELSE objs[k]]
SetCode(objs, T, v) == objs
Ids(s) == [k \in DOMAIN s |-> s[k].id]
Names(s) == [k \in DOMAIN s |-> s[k].name]
=============================================================================
