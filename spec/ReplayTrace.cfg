SPECIFICATION Spec
CONSTRAINT Done
