SPECIFICATION Spec
CONSTANTS
  KeysSet <- KeysAll
  TimesSet <- TimesQ
  MaxObj = 1
  MaxTp = 2
  Wide = TRUE
  Emit = TRUE
INVARIANT WriteModel
INVARIANT ColumnsInRange
CONSTRAINT EmitScn
