SPECIFICATION Spec
CONSTANTS
  MaxRows = 3
  Depth = 3
  LabelAligned = FALSE
  Emit = TRUE
INVARIANT Preserved
CONSTRAINT EmitScn
