----------------------------- MODULE PatternMC -----------------------------
(***************************************************************************)
(* Every small note set x windows x jack setting.  GroupImpl transcribes   *)
(* Pattern.group: walk the notes in time order; an ungrouped note opens a  *)
(* group that takes, among the still ungrouped notes, those inside         *)
(* [t, t + v] (first occurrence of each column when jacks are avoided)     *)
(* and inside the horizontal window.  One loop iteration per step.         *)
(* Invariant: the finished grouping satisfies every clause.                *)
(***************************************************************************)
EXTENDS Pattern, TLC, Json

CONSTANTS MaxNotes, Times, NCols, Vs, Hs, Emit
VARIABLES notes, v, h, jack, pc, grouped, groups, ix
vars == <<notes, v, h, jack, pc, grouped, groups, ix>>

HsAll == {0 - 1, 0, 1}
KindsK == {"hit", "hold", "tail"}
Key(x) == x.t * 100 + x.c * 10 + (IF x.k = "hit" THEN 0 ELSE IF x.k = "hold" THEN 1 ELSE 2)

Init == /\ notes = <<>> /\ v \in Vs /\ h \in Hs /\ jack \in BOOLEAN
        /\ pc = "build" /\ grouped = {} /\ groups = <<>> /\ ix = 1
Add == /\ pc = "build" /\ Len(notes) < MaxNotes
       /\ \E t \in Times, c \in 0..NCols-1, k \in KindsK :
            LET x == [t |-> t, c |-> c, k |-> k] IN
            /\ (IF notes = <<>> THEN TRUE ELSE Key(notes[Len(notes)]) <= Key(x))
            /\ notes' = Append(notes, x)
       /\ UNCHANGED <<v, h, jack, pc, grouped, groups, ix>>
Start == pc = "build" /\ Len(notes) >= 1 /\ pc' = "loop" /\ UNCHANGED <<notes, v, h, jack, grouped, groups, ix>>

Iterate ==
    /\ pc = "loop" /\ ix <= Len(notes)
    /\ IF ix \in grouped THEN UNCHANGED <<grouped, groups>>
       ELSE LET U == (DOMAIN notes) \ grouped
                win == { i \in U : notes[i].t >= notes[ix].t /\ notes[i].t <= notes[ix].t + v }
                vm == IF jack THEN { i \in win : \A j \in win : notes[j].c = notes[i].c => i <= j } ELSE win
                m == IF h >= 0 THEN { i \in vm : Abs(notes[i].c - notes[ix].c) <= h } ELSE vm
                RECURSIVE Sq(_)
                Sq(S) == IF S = {} THEN <<>> ELSE LET a == MinOf(S) IN <<notes[a]>> \o Sq(S \ {a})
            IN /\ grouped' = grouped \cup m
               /\ groups' = Append(groups, Sq(m))
    /\ ix' = ix + 1
    /\ UNCHANGED <<notes, v, h, jack, pc>>
Finish == pc = "loop" /\ ix > Len(notes) /\ pc' = "done" /\ UNCHANGED <<notes, v, h, jack, grouped, groups, ix>>
Next == Add \/ Start \/ Iterate \/ Finish
Spec == Init /\ [][Next]_vars

ImplSatisfiesRef == pc = "done" =>
    LET cl == GroupClauses(notes, groups, v, h, jack) IN \A k \in DOMAIN cl : cl[k]
(* combinations of the model's own groups: the unfiltered expectation has the product size *)
ProductSizes == pc = "done" => \A n \in 2..3 :
    LET off == [on |-> FALSE] IN
    Cardinality(Expected(groups, n, off, off, off)) =
       (IF Len(groups) < n THEN 0
        ELSE LET RECURSIVE S(_)
                 S(g) == IF g > Len(groups) - n + 1 THEN 0
                         ELSE (LET RECURSIVE P(_)
                                   P(i) == IF i = n THEN 1 ELSE Len(groups[g + i]) * P(i + 1)
                               IN P(0)) + S(g + 1)
             IN S(1))

EmitScn == (Emit /\ pc = "loop" /\ ix = 1) =>
              PrintT(ToJson([kind |-> "ptn", notes |-> notes, v |-> v, h |-> h, jack |-> jack]))
=============================================================================
