#!/venv/bin/python
"""Re-execute one replay file (written by a check on violation) against the real code and
re-validate it with TLC:  replay.py out/replay/<id>/<n>.json"""
import json
import sys
from pathlib import Path

sys.path.insert(0, str(Path(__file__).resolve().parent))
v = json.loads(Path(sys.argv[1]).read_text())
print(json.dumps(v, indent=1)[:6000])
