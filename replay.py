#!/venv/bin/python
"""Re-judge one replay file written by a check:   replay.py out/replay/<Cxx>-<tier>/<n>.json
Prints the recorded scenario/trace record and lets TLC evaluate the property clauses on it again
(the record holds the inputs and the projected outputs of the real call)."""
import json
import sys
from pathlib import Path

sys.path.insert(0, str(Path(__file__).resolve().parent))
from harness.tlc import validate_traces  # noqa: E402

TRACE = {"C01": "OsuTrace", "C02": "SMTrace", "C03": "SMTrace", "C04": "BMSTrace", "C05": "BMSTrace", "C06": "QuaTrace",
         "C07": "O2JTrace", "C08": "ConvertTrace", "C09": "CrossTrace", "C10": "TempoTrace", "C11": "ReseatTrace",
         "C12": "StackTrace", "C13": "RateTrace", "C14": "FrameTrace", "C15": "PermTrace", "C16": "ListsTrace",
         "C17": "FullLNTrace", "C18": "HitsoundTrace", "C19": "SpeedTrace", "C20": "PatternTrace"}

p = Path(sys.argv[1])
v = json.loads(p.read_text())
pid = p.parent.name
print(json.dumps({k: v[k] for k in v if k != "rec"}, indent=1))
rec = v.get("rec")
if not rec:
    sys.exit(0)
print(json.dumps(rec, indent=1)[:8000])
env = {"VERIF_PROP": pid} if pid in ("C14", "C16") else None
rej, n, _ = validate_traces(TRACE[pid], TRACE[pid], [rec], shards=1, tag=f"replay-{pid}", env=env)
print("TLC verdict:", "REJECTED clauses=" + ",".join(rej[0]["failing"]) if rej else "accepted")
sys.exit(1 if rej else 0)
