#!/venv/bin/python
"""MANIFEST.setup_cmd: parse every spec module with SANY, create scratch directories."""
import subprocess
import sys
from pathlib import Path

V = Path(__file__).resolve().parent
(V / "out").mkdir(exist_ok=True)
(V / "evidence").mkdir(exist_ok=True)
bad = 0
for f in sorted((V / "spec").glob("*.tla")):
    p = subprocess.run(["java", "-cp", "/opt/veriftools/tla/tla2tools.jar:/opt/veriftools/tla/CommunityModules-deps.jar",
                        "tla2sany.SANY", f.name], cwd=V / "spec", capture_output=True, text=True)
    if p.returncode != 0 or "error" in p.stdout.lower().replace("semantic errors:\n\n", ""):
        if "Semantic errors" in p.stdout or "Parse Error" in p.stdout or "Fatal" in p.stdout or p.returncode:
            print("SANY failed on", f.name, p.stdout[-800:])
            bad += 1
sys.exit(1 if bad else 0)
