#!/bin/sh
# usage: selftest/run_seed.sh <patch.diff> <Cxx> [tier]   -> prints CAUGHT / MISSED / NOAPPLY
# applies the patch to a scratch copy of /repo's working tree (never to /repo itself), runs the check on it
P="$1"; C="$2"; T="${3:-quick}"
D=$(mktemp -d /tmp/verif-mut-XXXXXX)
cp -r /repo/reamber "$D/reamber"
if ! (cd "$D" && patch -p1 -s --no-backup-if-mismatch < "$P" >/dev/null 2>&1); then echo "NOAPPLY $P"; rm -rf "$D"; exit 3; fi
OUT=$(cd /verif && VERIF_REPO="$D" VERIF_EVIDENCE_DIR="$D/evidence" VERIF_OUT="$D/out" /venv/bin/python run_check.py "$C" "$T" 2>&1); RC=$?
rm -rf "$D"
if [ $RC -eq 1 ]; then echo "CAUGHT $C $(basename $(dirname $P)) :: $(echo "$OUT" | grep VIOLATION | sed 's/replay=[^ ]*//' | sort | uniq -c | sort -rn | head -3 | tr '\n' ';')"; 
elif [ $RC -eq 0 ]; then echo "MISSED $C $(basename $(dirname $P))"; else echo "ERROR rc=$RC $C $(basename $(dirname $P)) :: $(echo "$OUT" | tail -3)"; fi
