#!/venv/bin/python
"""Kill matrix: apply every seeded change (seeded/<id>/patch.diff) to a scratch copy of /repo's working tree,
run the check of its property on it (quick tier), record the outcome in selftest/kill_matrix.json.
A patch that no longer applies strictly (the repository moved on through `fix:` commits) is re-applied with
fuzz and, if that works, rewritten against the current tree.   usage: matrix.py [ids...] [-j N]"""
import json
import shutil
import subprocess
import sys
import tempfile
from concurrent.futures import ThreadPoolExecutor
from pathlib import Path

V = Path("/verif")
args = [a for a in sys.argv[1:] if not a.startswith("-")]
jobs = 3
if "-j" in sys.argv:
    jobs = int(sys.argv[sys.argv.index("-j") + 1])
    args = [a for a in args if a != str(jobs)]
ids = args or sorted(p.name for p in (V / "seeded").iterdir() if (p / "patch.diff").exists())


def one(name):
    d = V / "seeded" / name
    prop = json.loads((d / "meta.json").read_text()).get("property", name.split("_")[0])
    D = Path(tempfile.mkdtemp(prefix="verif-mut-", dir="/tmp"))
    res = {"id": name, "property": prop}
    try:
        shutil.copytree("/repo/reamber", D / "reamber")
        strict = subprocess.run(["git", "apply", "--check", str(d / "patch.diff")], cwd="/repo", capture_output=True).returncode == 0
        p = subprocess.run(["patch", "-p1", "-s", "--no-backup-if-mismatch", "-i", str(d / "patch.diff")], cwd=D, capture_output=True, text=True)
        if p.returncode != 0:
            res["outcome"] = "NOAPPLY"
            return res
        if not strict:
            # rewrite the patch against the current tree
            diff = subprocess.run(["diff", "-ruN", "/repo/reamber", str(D / "reamber")], capture_output=True, text=True).stdout
            diff = diff.replace(str(D) + "/", "b/").replace("/repo/", "a/")
            (d / "patch.diff").write_text(diff)
            res["rebased"] = True
        r = subprocess.run(["/venv/bin/python", "run_check.py", prop, "quick"], cwd=V, capture_output=True, text=True,
                           env={"VERIF_REPO": str(D), "VERIF_EVIDENCE_DIR": str(D / "evidence"), "VERIF_OUT": str(D / "out"), "PATH": "/usr/bin:/bin:/usr/local/bin", "HOME": "/root", "PYTHONHASHSEED": "0"})
        res["rc"] = r.returncode
        res["outcome"] = {1: "CAUGHT", 0: "MISSED"}.get(r.returncode, "ERROR")
        v = sorted({" ".join(x for x in ln.split() if x.startswith(("clauses=", "class="))) for ln in r.stdout.splitlines()
                    if ln.startswith("VIOLATION")})
        res["violations"] = v[:4]
    finally:
        shutil.rmtree(D, ignore_errors=True)
    return res


with ThreadPoolExecutor(max_workers=jobs) as ex:
    results = list(ex.map(one, ids))
out = V / "selftest" / "kill_matrix.json"
old = {r["id"]: r for r in json.loads(out.read_text())} if out.exists() else {}
for r in results:
    old[r["id"]] = r
    print(r["id"], r["outcome"], r.get("violations", [])[:1])
out.write_text(json.dumps(sorted(old.values(), key=lambda r: r["id"]), indent=1) + "\n")
