#!/venv/bin/python
"""Confirm a seeded change independently and file it under /verif/seeded/<name>/.

usage: ingest_seed.py <dir with patch.diff demo.py meta.json> [--name NAME] [--skip-suite]
Checks, in a scratch copy of /repo's working tree under /tmp (removed afterwards):
  1. demo.py exits 0 on the unpatched tree      2. the patch applies
  3. demo.py exits non-zero on the patched tree  4. the repository's test suite still passes (306 passed)
and records what was run in meta.json."""
import json
import shutil
import subprocess
import sys
import tempfile
from pathlib import Path

src = Path(sys.argv[1])
name = src.name
if "--name" in sys.argv:
    name = sys.argv[sys.argv.index("--name") + 1]
skip_suite = "--skip-suite" in sys.argv
dst = Path("/verif/seeded") / name
dst.mkdir(parents=True, exist_ok=True)
for f in ("patch.diff", "demo.py", "meta.json"):
    if (src / f).exists() and (src / f).resolve() != (dst / f).resolve():
        shutil.copy(src / f, dst / f)
meta = json.loads((dst / "meta.json").read_text()) if (dst / "meta.json").exists() else {}
D = Path(tempfile.mkdtemp(prefix="verif-mut-", dir="/tmp"))
ran = {}
try:
    subprocess.run(["git", "-C", "/repo", "worktree", "add", "-q", "--detach", str(D / "wt"), "HEAD"], check=True)
    wt = D / "wt"
    env = {"PYTHONPATH": str(wt), "PATH": "/usr/bin:/bin", "PYTHONHASHSEED": "0"}
    p0 = subprocess.run(["/venv/bin/python", str(dst / "demo.py")], cwd=wt, env=env, capture_output=True, text=True, timeout=600)
    ran["demo_unpatched_rc"] = p0.returncode
    ap = subprocess.run(["git", "-C", str(wt), "apply", str(dst / "patch.diff")], capture_output=True, text=True)
    ran["patch_applies"] = ap.returncode == 0
    if ap.returncode == 0:
        p1 = subprocess.run(["/venv/bin/python", str(dst / "demo.py")], cwd=wt, env=env, capture_output=True, text=True, timeout=600)
        ran["demo_patched_rc"] = p1.returncode
        ran["demo_patched_tail"] = (p1.stdout + p1.stderr)[-300:]
        if not skip_suite:
            t = subprocess.run(["/venv/bin/python", "-m", "pytest", "-q", "-p", "no:cacheprovider", "--timeout=900",
                                "--continue-on-collection-errors"], cwd=wt, capture_output=True, text=True, timeout=3000)
            ran["suite_tail"] = t.stdout.strip().splitlines()[-1] if t.stdout.strip() else ""
    else:
        ran["apply_err"] = ap.stderr[-300:]
finally:
    subprocess.run(["git", "-C", "/repo", "worktree", "remove", "--force", str(D / "wt")], capture_output=True)
    shutil.rmtree(D, ignore_errors=True)
ok = (ran.get("demo_unpatched_rc") == 0 and ran.get("patch_applies") and ran.get("demo_patched_rc", 0) != 0
      and (skip_suite or "306 passed" in ran.get("suite_tail", "")))
meta["confirmed"] = bool(ok)
meta["what_i_ran"] = ran
meta["repo_head"] = subprocess.run(["git", "-C", "/repo", "rev-parse", "--short", "HEAD"], capture_output=True, text=True).stdout.strip()
(dst / "meta.json").write_text(json.dumps(meta, indent=1) + "\n")
print(name, "CONFIRMED" if ok else "NOT-CONFIRMED", json.dumps(ran)[:400])
