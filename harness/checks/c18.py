"""C18 - hitsound copy moves sounds, never notes, and loses nothing it promises to keep."""
from __future__ import annotations

from harness.common import Check, pmap, rng
from harness.tlc import run_tlc, validate_traces
from harness.drivers import c18 as drv


def run(tier: str) -> int:
    chk = Check("C18", tier)
    r = run_tlc("HitsoundMC", f"HitsoundMC_{tier}", timeout=3000)
    chk.add_model(f"HitsoundMC_{tier}", r, "slot/slot_max machine satisfies every clause for every small source x target")
    d = run_tlc("HitsoundMC", "HitsoundMC_dropfiles", timeout=900)
    chk.models.append({"model": "HitsoundMC_dropfiles", "note": "sanity: the pre-repair `break` after the first overflowing "
                       "file violates samples_conserved", "violated": d.violated})
    if d.ok:
        chk.model_violations.append("vacuity: dropped overflow files not distinguished by the model")
    scs = [p for p in r.prints if isinstance(p, dict) and p.get("kind") == "hs"]
    rr = rng("c18")
    rr.shuffle(scs)
    cap = 7000 if tier == "quick" else 80000
    scns = [drv.from_model(s, i) for i, s in enumerate(scs[:cap])]
    scns += drv.random_scenarios(1500 if tier == "quick" else 20000)
    recs = pmap(drv.exec_hs, scns)
    rejects, consumed, wall = validate_traces("HitsoundTrace", "HitsoundTrace", recs, tag=f"c18-{tier}")
    chk.add_traces(recs, rejects)
    # EXTENSION beyond C18 (same package, reamber/algorithms/osu): replay parsing.  ReplayMC is model-checked (the pandas
    # pipeline = the documented actions after the first state-changing frame), every frame list of the model is replayed
    # into parse_replay_actions / parse_replays_error and judged by ReplayTrace; disagreements are observations
    from harness.drivers import replayx
    rm = run_tlc("ReplayMC", f"ReplayMC_{tier}", workers=4, timeout=3000)
    chk.add_model(f"ReplayMC_{tier}", rm, "EXTENSION: parse_replay_actions pipeline vs documented actions (PipelineAfterBaseline, PipelineSubset)")
    rs = run_tlc("ReplayMC", "ReplayMC_sanity", workers=1, timeout=600)
    if rs.ok:
        chk.model_violations.append("vacuity: ReplayMC_sanity (pipeline = documented actions) was expected to be violated")
    fl = [p for p in rm.prints if isinstance(p, dict) and p.get("kind") == "replay"]
    rr.shuffle(fl)
    xrecs = pmap(replayx.exec_replay, fl[: (5000 if tier == "quick" else 30000)])
    xrej, _, _ = validate_traces("ReplayTrace", "ReplayTrace", xrecs, tag=f"c18x-{tier}")
    chk.add_traces(xrecs, xrej)
    chk.nontrivial = len({(str(x["src"]), str(x["tgt"])) for x in recs if x["src"]})
    chk.rule = ("TLC enumerates every source of <= MaxSrc sounding notes at one time (8 clap/finish/whistle sets x volumes x "
                "files) x 0..2 target notes, checks the transcribed slot machine and emits each; a seeded sample is executed with "
                "hits and holds on either side, targets with sounds of their own, charts after rate / stack / reverse sort / "
                "append / shuffled rows; plus random multi-time charts. non-trivial = distinct (source, target)")
    for x in recs:
        if len(x["src"]) >= 2 and len(x["tgt"]) >= 2 and not x["exc"]:
            chk.sample(x, n=2)
    chk.extra["scenarios_emitted"] = len(scs)
    chk.assumptions = ["which target note receives which sound is not prescribed (bags per time)",
                       "the volume carried by a sounding result note is a source volume at that time (non-positive -> 0)"]
    return chk.finish()
