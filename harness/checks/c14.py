"""C14 - query, generate, convert and write operations never modify their inputs."""
from __future__ import annotations

from harness.charts import GAMES
from harness.common import Check, pmap
from harness.tlc import run_tlc, validate_traces
from harness.drivers import c14 as drv, c16 as drv16
from harness.checks import c16 as chk16


def run(tier: str) -> int:
    chk = Check("C14", tier)
    r = run_tlc("FrameMC", "FrameMC", timeout=600)
    chk.add_model("FrameMC", r, "heap/alias model: InputsStable, CopiesDisjoint over Deep/Rate/Wrap/View/Fresh/Poke")
    sh = run_tlc("FrameMC", "FrameMC_shallow", timeout=600)
    chk.models.append({"model": "FrameMC_shallow", "note": "sanity: a rate() that keeps the frames violates the invariants",
                       "violated": sh.violated})
    if sh.ok:
        chk.model_violations.append("vacuity: shallow rate not distinguished by the heap model")
    # map-level operations, every game, several seeds (= orders of the whole catalogue)
    nseq = 6 if tier == "quick" else 60
    scns = [{"id": f"s{i}", "game": g, "variant": i % 3} for g in list(GAMES) + ["base"] for i in range(nseq)]
    recs = pmap(drv.exec_ops, scns, chunk=1)
    # list-level operations: the histories of the Lists model, replayed as in C16
    tmp = Check("C16", tier)
    lscn, ncls = chk16.build_scenarios(tier, tmp, per_hist_classes=1, budget=6 if tier == "quick" else 10)
    if tier == "quick":
        lscn = lscn[::2]
    chk.models += tmp.models
    chk.states += tmp.states
    chk.transitions += tmp.transitions
    lrecs = pmap(drv16.exec_hist, lscn)
    recs += [drv.from_list_record(x) for x in lrecs if x["pre"] or x["op"] in ("len",)]
    srecs = chk16.suite_traces(tier, "c14")
    chk.extra["records_from_repository_test_suite"] = len(srecs)
    recs += [drv.from_list_record(x) for x in srecs]
    rejects, consumed, wall = validate_traces("FrameTrace", "FrameTrace", recs, tag=f"c14-{tier}")
    chk.add_traces(recs, rejects)
    chk.nontrivial = len({x["cls"] + str(x.get("seq", ""))[:200] for x in recs})
    chk.rule = ("every operation of the catalogue (rate, deepcopy, stack, full_ln, hitsound_copy, sv_normalize, scroll_speed, "
                "dominant_bpm, pattern extraction, timing-map/bpm queries, write, the 17 converters) is applied to one input per "
                "game in seeded random orders, the input's full projection compared after every call; documented copies are "
                "modified in place and the input compared again; plus every list operation of the C16 histories. "
                "non-trivial = distinct (game.op, preceding sequence)")
    ops = set()
    for x in recs:
        if x["op"] not in ops and len(chk.samples) < 3 and "seq" in x:
            ops.add(x["op"])
            chk.sample({"id": x["id"], "op": x["op"], "seq": x["seq"], "copy": x["copy"],
                        "before_excerpt": str(x["before"])[:600]}, n=3)
    chk.extra["map_level_ops"] = sorted({x["op"] for x in recs if "seq" in x})
    chk.assumptions = ["identity = equality of values (as canonical strings), column names and order, dtypes, row labels, "
                       "and every attribute of the chart / set object",
                       "an operation that raises on a chart is still required to leave it untouched"]
    return chk.finish()
