"""C17 - full-LN generation keeps every note and fills gaps by the stated rule."""
from __future__ import annotations

from harness.charts import GAMES
from harness.common import Check, pmap, rng
from harness.tlc import run_tlc, validate_traces
from harness.drivers import c17 as drv


def run(tier: str) -> int:
    chk = Check("C17", tier)
    r = run_tlc("FullLNMC", f"FullLNMC_{tier}", timeout=3000)
    chk.add_model(f"FullLNMC_{tier}", r, "FullLNImpl (sort, group by column, diff sweep) satisfies every clause for every small chart")
    scs = [p for p in r.prints if isinstance(p, dict) and p.get("kind") == "fullln"]
    games = list(GAMES) + ["base"]
    rr = rng("c17")
    rr.shuffle(scs)
    cap = 9000 if tier == "quick" else 120000
    scns = []
    for i, s in enumerate(scs[:cap]):
        runs = [(games[i % len(games)], drv.FORMS[(i // len(games)) % len(drv.FORMS)])]
        if tier == "thorough":
            runs.append((games[(i + 3) % len(games)], drv.FORMS[(i + 1) % len(drv.FORMS)]))
        scns.append({"id": f"m{i}", "notes": s["notes"], "gap": s["gap"], "thr": s["thr"], "runs": runs})
    for j, s in enumerate(drv.random_scenarios(600 if tier == "quick" else 10000, tier)):
        s["runs"] = [(games[j % len(games)], drv.FORMS[j % len(drv.FORMS)])]
        scns.append(s)
    recs = pmap(drv.exec_fullln, scns)
    rejects, consumed, wall = validate_traces("FullLNTrace", "FullLNTrace", recs, tag=f"c17-{tier}")
    chk.add_traces(recs, rejects)
    chk.nontrivial = len({(str(x["notes"]), x["gap"], x["thr"]) for x in recs if len(x["notes"]) >= 2})
    chk.rule = ("TLC enumerates every chart of <= MaxNotes notes (times 0..3, 2 columns, hit / hold 1..2) x gap x threshold in 0..2, "
                "checks the transcribed sweep against the clauses and emits each scenario; a seeded sample is executed on the five "
                "games + base Map, the chart built by from_dict / items / append(item) / reverse sort / stack write / shuffled rows; "
                "plus random charts up to 12 notes, 7 columns, fractional times. non-trivial = distinct (chart >= 2 notes, gap, thr)")
    for x in recs:
        if len(x["notes"]) >= 3 and not x["exc"]:
            chk.sample(x, n=2)
    chk.extra["scenarios_emitted"] = len(scs)
    chk.assumptions = ["notes stacked at one time in one column: either processing order is accepted (TLC searches the orders)",
                       "times x1000 compared exactly (grid arithmetic is exact)"]
    return chk.finish()
