"""C11 - reseating tempo changes onto measure lines."""
from __future__ import annotations

from harness.common import Check, pmap
from harness.tlc import run_tlc, validate_traces
from harness.drivers import c11 as drv


def run(tier: str) -> int:
    chk = Check("C11", tier)
    r = run_tlc("ReseatMC", f"ReseatMC_{tier}", coverage=True, timeout=3000)
    chk.add_model(f"ReseatMC_{tier}", r, "ReseatImpl (loop transcription) refines ReseatRef; extend branches unreachable on the grid")
    if r.ok and r.coverage.get("Iterate", [0])[0] == 0:
        chk.model_violations.append("vacuity: Iterate never taken")
    e = run_tlc("ReseatMC", f"ReseatMC_emit_{tier}", workers=1, timeout=3000)
    chk.add_model(f"ReseatMC_emit_{tier}", e, "emits every input list of the model")
    ins = [p for p in e.prints if isinstance(p, dict) and p.get("kind") == "in"]
    t0s = [0, -70000, 1250000]
    scns = [{"id": f"mc{i}", "cls": "grid2", "G": p["G"], "tl": p["tl"], "t0": t0s[i % 3]} for i, p in enumerate(ins)]
    recs = pmap(drv.exec_c11, scns)
    recs += pmap(drv.exec_c11, drv.random_scenarios(2000 if tier == "quick" else 40000, tier))
    recs += pmap(drv.exec_c11, drv.grid1000_scenarios(3000 if tier == "quick" else 30000))
    rejects, consumed, wall = validate_traces("ReseatTrace", "ReseatTrace", recs, tag=f"c11-{tier}")
    chk.add_traces(recs, rejects)
    chk.nontrivial = len({str(x["tl"]) for x in recs if not all(c["b"] == 0 for c in x["tl"])})
    chk.rule = ("TLC enumerates every list of 2..MaxC changes on the half-beat grid (3 bpm, metronomes 3/4) and emits it; "
                "each is reseated through reseat_bpm_changes_snap, from_bpm_changes_snap(reseat=True) and TimingMap.reseat(); "
                "plus seeded random lists on 1/2..1/96 grids and on the 1/1000 grid (extend branches). "
                "non-trivial = distinct unseated input lists")
    for via in ("fn", "tm", "tm.reseat"):
        for x in recs:
            if x["via"] == via and not all(c["b"] == 0 for c in x["tl"]):
                chk.sample(x, n=1 + len(chk.samples))
                break
    chk.extra["trace_validation_wall_s"] = round(wall, 1)
    chk.extra["exhaustive"] = False
    chk.assumptions = [
        "beat lengths are multiples of G*lcm(metronomes) ticks so that every reseated value is an integer number of ticks",
        "out times by integration over the reported measures, tolerance 2 ticks + 1 tick per beat (bl rounded to ticks)",
        "domain: first change at measure 0 beat 0; lists seated or with constant metronome",
    ]
    return chk.finish()
