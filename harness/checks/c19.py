"""C19 - dominant bpm, scroll speed and SV normalisation follow their definitions."""
from __future__ import annotations

from harness.common import Check, pmap, rng
from harness.tlc import run_tlc, validate_traces
from harness.drivers import c19 as drv

GAMES = ("osu", "qua", "sm", "bms", "o2j", "base")


def run(tier: str) -> int:
    chk = Check("C19", tier)
    r = run_tlc("SpeedMC", f"SpeedMC_{tier}", timeout=3000)
    chk.add_model(f"SpeedMC_{tier}", r, "pandas-shaped SV step function and dominant computation agree with the definitions on every layout")
    scs = [p for p in r.prints if isinstance(p, dict) and p.get("kind") == "speed"]
    rr = rng("c19")
    rr.shuffle(scs)
    cap = 5000 if tier == "quick" else 60000
    scns = []
    for i, s in enumerate(scs[:cap]):
        g = ("osu", "qua", "osu", "qua", "sm", "bms", "o2j", "base")[i % 8]
        scns.append({"id": f"m{i}", "tps": s["tps"], "svs": s["svs"], "last": s["last"],
                     "overrides": [0, 100] if i % 2 else [0], "runs": [(g, drv.FORMS[(i // 8) % len(drv.FORMS)])]})
    for j, s in enumerate(drv.random_scenarios(500 if tier == "quick" else 8000)):
        s["runs"] = [(GAMES[j % 6], drv.FORMS[j % len(drv.FORMS)])]
        scns.append(s)
    recs = pmap(drv.exec_speed, scns)
    rejects, consumed, wall = validate_traces("SpeedTrace", "SpeedTrace", recs, tag=f"c19-{tier}")
    chk.add_traces(recs, rejects)
    chk.nontrivial = len({(x["op"], str(x["tps"]), str(x.get("svs")), x.get("override")) for x in recs if len(x["tps"]) >= 2})
    chk.rule = ("TLC enumerates every layout of <= MaxTp tempo points and <= MaxSv SVs over times 0..4 (coincidences included), checks "
                "the pandas-shaped computations against the definitions and emits each layout; a seeded sample is executed on "
                "osu/Quaver (SV parts) and the other games (tempo parts) with rows plain / shuffled / after rate(1) / stack / "
                "reverse sort, with and without override; plus random layouts up to 7 tempo points and 8 SVs. "
                "non-trivial = distinct (op, >=2 tempo points, SVs, override)")
    for op in ("dominant", "scroll", "normalize"):
        for x in recs:
            if x["op"] == op and len(x["tps"]) >= 2 and not x["exc"]:
                chk.sample(x, n=1 + len(chk.samples))
                break
    chk.extra["layouts_emitted"] = len(scs)
    chk.assumptions = ["bpm x10, multipliers and speeds x10000, one unit of tolerance", "ties of the dominant bpm: any maximal value; "
                       "two SVs at one time: either multiplier"]
    return chk.finish()
