"""C20 - pattern grouping partitions the notes; combinations are exactly the allowed ones."""
from __future__ import annotations

from harness.common import Check, pmap, rng
from harness.tlc import run_tlc, validate_traces
from harness.drivers import c20 as drv


def run(tier: str) -> int:
    chk = Check("C20", tier)
    r = run_tlc("PatternMC", f"PatternMC_{tier}", timeout=3000)
    chk.add_model(f"PatternMC_{tier}", r, "is_grouped loop transcription satisfies the grouping clauses; product sizes of the combinations")
    scs = [p for p in r.prints if isinstance(p, dict) and p.get("kind") == "ptn"]
    rr = rng("c20")
    rr.shuffle(scs)
    cap = 5000 if tier == "quick" else 60000
    scns = [{"id": f"m{i}", "notes": s["notes"], "v": s["v"], "h": s["h"], "jack": s["jack"],
             "filters": drv.pick_filters(rr, tier), "via_lists": i % 5 == 0, "regroup": i % 4 == 2} for i, s in enumerate(scs[:cap])]
    scns += drv.random_scenarios(800 if tier == "quick" else 12000, tier)
    recs = pmap(drv.exec_ptn, scns)
    rejects, consumed, wall = validate_traces("PatternTrace", "PatternTrace", recs, tag=f"c20-{tier}")
    chk.add_traces(recs, rejects)
    # EXTENSION beyond C20 (the play-field renderer that visualises these patterns): FieldMC is model-checked (rectangles of
    # different columns are disjoint; with a lead of two hit heights every hit lies inside the canvas; the sanity configuration
    # without the lead must be violated), every chart x configuration of the model is rendered with PlayField + PFDrawNotes,
    # + PFDrawBeatLines and + PFDrawColumnLines (each alone)
    # and FieldTrace judges the pixels; disagreements are observations
    from harness.drivers import fieldx
    fm = run_tlc("FieldMC", f"FieldMC_{tier}", workers=4, timeout=3000)
    chk.add_model(f"FieldMC_{tier}", fm, "EXTENSION: PlayField geometry (ColumnsDisjoint, HitsInside, LinesInside, LinesNested, HitsRestOnLines, GapsAvoidNotes, CodedSepsAreGapsWhenThin, HoldsInside)")
    if run_tlc("FieldMC", "FieldMC_sanity", workers=1, timeout=600).ok:
        chk.model_violations.append("vacuity: FieldMC_sanity (no lead) was expected to violate HitsInside")
    if run_tlc("FieldMC", "FieldMC_sanity2", workers=1, timeout=600).ok:
        chk.model_violations.append("vacuity: FieldMC_sanity2 (end lead not covering the hold) was expected to violate HoldsInside")
    fs = [p for p in fm.prints if isinstance(p, dict) and p.get("kind") == "field"]
    frecs = pmap(fieldx.exec_field, fs[:: max(1, len(fs) // (800 if tier == "quick" else 8000))])
    frej, _, _ = validate_traces("FieldTrace", "FieldTrace", frecs, tag=f"c20x-{tier}")
    chk.add_traces(frecs, frej)
    chk.nontrivial = len({(x["op"], str(x.get("notes", x.get("groups"))), str(x.get("chord")), str(x.get("combo")), str(x.get("type")),
                           x.get("v"), x.get("h"), x.get("jack"), x.get("n")) for x in recs})
    chk.rule = ("TLC enumerates every note set of <= MaxNotes notes (times 0..3, 3 columns, hit/hold/tail) x v in 0..2 x h in "
                "{None,0,1} x jack setting, runs the transcribed grouping loop against the clauses and emits each scenario; a seeded "
                "sample is executed (direct construction in shuffled order, or through HitList/HoldList with generated tails), then "
                "combinations of sizes 2..4 with chord/combo/type filters drawn from a catalogue of option combinations; plus "
                "random note sets up to 9 notes. non-trivial = distinct (op, notes/groups, windows, filters)")
    for op in ("group", "combos"):
        for x in recs:
            if x["op"] == op and not x["exc"] and len(x.get("groups", [])) >= 2 and (op == "group" or x["out"]):
                chk.sample(x, n=1 + len(chk.samples))
                break
    chk.extra["scenarios_emitted"] = len(scs)
    chk.assumptions = ["filters are given to TLC as parameters (base sequences, options, keys) and expanded set-theoretically there",
                       "single-base chord filters (AND_LOWER / AND_HIGHER are element-wise relative to the base sequence)",
                       "the grouping clauses are those of the property (partition, windows relative to the group's first note, no "
                       "repeated column); which admissible partition is returned is not prescribed"]
    return chk.finish()
