"""C08 - converting between games preserves chart content exactly, from any source state."""
from __future__ import annotations

from harness.common import Check, pmap
from harness.tlc import run_tlc, validate_traces
from harness.drivers import c08 as drv


def run(tier: str) -> int:
    chk = Check("C08", tier)
    r = run_tlc("ConvertMC", f"ConvertMC_{tier}", timeout=1800)
    chk.add_model(f"ConvertMC_{tier}", r, "cast() transcription (positional assignment) preserves the bag of values after every history")
    al = run_tlc("ConvertMC", "ConvertMC_aligned", timeout=600)
    chk.models.append({"model": "ConvertMC_aligned", "note": "sanity: with label-aligned assignment (the defect repaired in "
                       "the repository) TLC finds the NaN/misaligned conversion", "violated": al.violated})
    if al.ok:
        chk.model_violations.append("vacuity: label-aligned cast not distinguished by the model")
    hs = [p for p in r.prints if isinstance(p, dict) and p.get("kind") == "convhist"]
    scns = []
    convs = list(drv.CONVERTERS)
    for i, h in enumerate(hs):
        if h["base"] != 0 and tier == "quick":
            continue        # `base` only matters inside the model (rows stacked before the list)
        for j, c in enumerate(convs):
            if tier == "quick" and (i + j) % 2:
                continue
            scns.append({"id": f"h{i}", "conv": c, "hist": h["hist"], "n": h["n"], "shift": (i + j) % 3})
    recs = pmap(drv.exec_conv, scns)
    rejects, consumed, wall = validate_traces("ConvertTrace", "ConvertTrace", recs, tag=f"c08-{tier}")
    chk.add_traces(recs, rejects)
    chk.nontrivial = len({(x["conv"], x["cls"], str(x["src"])) for x in recs if x["src"]})
    chk.rule = ("TLC enumerates every source history (filter, filter_mid, sort_rev, append, stack_write, rate, deepcopy; depth<=Depth; 0..3 rows) "
                "followed by convert and emits it; each is replayed for the 16 converters and convert_merge on charts / sets "
                "with hits, holds, tempo points and SVs. non-trivial = distinct (converter, history, source chart)")
    for x in recs:
        if not x["exc"] and len(x["src"]) and len(chk.samples) < 2 and len(x["hist"] if "hist" in x else "x"):
            chk.sample({k: v for k, v in x.items() if k != "src_after"}, n=2)
    chk.assumptions = ["values x1000 compared exactly as bags", "difficulty name compared for osu/quaver/bms pairs only; "
                       "creator not for BMS targets (the format has no such header)"]
    return chk.finish()
