"""C15 - a chart is a set of timed objects: results do not depend on row order."""
from __future__ import annotations

from harness.common import Check, pmap, rng
from harness.tlc import run_tlc, validate_traces
from harness.drivers import c15 as drv

GAMES = ("osu", "qua", "sm", "bms", "o2j", "base")


def run(tier: str) -> int:
    chk = Check("C15", tier)
    r = run_tlc("PermMC", f"PermMC_{tier}", timeout=1200)
    chk.add_model(f"PermMC_{tier}", r, "every permutation of every list (2..3 rows) in both label forms; a permuted list is the same bag")
    scs = [p for p in r.prints if isinstance(p, dict) and p.get("kind") == "perm"]
    rr = rng("c15")
    rr.shuffle(scs)
    cap = 240 if tier == "quick" else 8160
    scns = [{"id": f"p{i}", "game": GAMES[i % len(GAMES)], "sizes": s["sizes"], "perm": s["perm"], "form": s["form"]}
            for i, s in enumerate(scs[:cap])]
    recs = pmap(drv.exec_perm, scns, chunk=4)
    rejects, consumed, wall = validate_traces("PermTrace", "PermTrace", recs, tag=f"c15-{tier}")
    chk.add_traces(recs, rejects)
    chk.nontrivial = len({(x["cls"], str(x["perm"])[:2000]) for x in recs})
    chk.rule = ("TLC enumerates every non-identity choice of permutations for the hit, hold, tempo and SV lists (2..3 rows each) in both "
                "forms (labels carried / fresh labels) and emits it; a seeded sample is applied to charts of every game and every "
                "operation is run on the original and on the permuted chart: write (osu, Quaver, StepMania, BMS; compared as bags of "
                "independently lexed tokens), the 16 converters, rate, full_ln, hitsound_copy (source, target or both permuted), "
                "dominant_bpm, scroll_speed, sv_normalize. non-trivial = distinct (game.op.form, permuted result)")
    for x in recs:
        if not x["exc"] and x["op"] in ("write", "hitsound_copy") and len(chk.samples) < 2:
            chk.sample({k: (v if k not in ("base", "perm") else {kk: vv[:4] for kk, vv in v.items()}) for k, v in x.items()}, n=2)
    chk.extra["permutation_choices_emitted"] = len(scs)
    chk.assumptions = ["ties that make the answer legitimately order dependent (two SVs at one time, notes stacked in one column at one "
                       "time) do not occur in the charts", "equivalence = equal bags per section / list; scalars equal"]
    return chk.finish()
