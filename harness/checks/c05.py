"""C05 - BMS writing produces a file that denotes the in-memory chart."""
from __future__ import annotations

from harness.common import Check, pmap
from harness.tlc import validate_traces
from harness.checks import c04
from harness.drivers import c05 as drv


def run(tier: str) -> int:
    chk = Check("C05", tier)
    scs, n = c04.scenarios(tier, chk, 20000 if tier == "quick" else 200000)
    scns = []
    for i, s in enumerate(scs):
        # the property's domain: tempo points on measure lines
        if any(ln["ch"] in ("03", "08") and any(o["i"] != 0 for o in ln["objs"]) for ln in s["file"]["lines"]):
            continue
        if not s["hits"] and not s["holds"]:
            continue
        scns.append({"id": f"m{i}", "layout": s["layout"], "hits": s["hits"], "holds": s["holds"], "tempo": s["tempo"],
                     "shuffle": i % 2 == 1, "via": i % 3 == 2, "rewrite": i % 5 == 3, "unknown_samples": i % 7 == 0})
        if len(scns) >= (5000 if tier == "quick" else 50000):
            break
    scns += drv.random_scenarios(600 if tier == "quick" else 8000, tier)
    recs = pmap(drv.exec_write, scns)
    rejects, consumed, wall = validate_traces("BMSTrace", "BMSTrace", recs, tag=f"c05-{tier}", heap="4g")
    chk.add_traces(recs, rejects)
    chk.nontrivial = len({x["layout"] + str(x["chart"])[:3000] for x in recs})
    chk.rule = ("the denotations TLC computed for the BMS generator's files (hits, holds with their LNOBJ ends, tempo timeline; tempo "
                "events on measure lines) are built as in-memory charts for each of the five layouts, written with write() / "
                "write_file(), the bytes lexed independently and judged by TLC: syntax of every line, one object per hit and a "
                "head/LNOBJ pair per hold in the right lane at the in-memory time (through the file's own tempo list, which must "
                "reproduce the in-memory timeline); plus random charts (up to 30 objects on 1/1..1/48 grids or off grid within "
                "1/192 beat, up to 40 [300] tempo points, shuffled rows, unknown samples). non-trivial = distinct (layout, chart)")
    for x in recs:
        if not x["exc"] and x["chart"].get("holds") and len(chk.samples) < 2:
            chk.sample(x, n=2)
    chk.extra["scenarios_emitted"] = n
    chk.assumptions = ["1 tick = 10 us", "#BPMxx values are written with 3 decimals: the file's beat length may differ by 2 ticks"]
    return chk.finish()
