"""C13 - rate change scales time uniformly, composes, and survives a write."""
from __future__ import annotations

from harness.charts import GAMES
from harness.common import Check, pmap, rng
from harness.tlc import run_tlc, validate_traces
from harness.drivers import c13 as drv


def run(tier: str) -> int:
    chk = Check("C13", tier)
    r = run_tlc("RateMC", f"RateMC_{tier}", timeout=1800)
    chk.add_model(f"RateMC_{tier}", r, "rate histories in exact rationals; laws Composition, BeatInvariant, Identity")
    hs = [p for p in r.prints if isinstance(p, dict) and p.get("kind") == "rates"]
    games = list(GAMES) + ["base"]
    scns = []
    rr = rng("c13")
    if tier == "thorough" and len(hs) > 4000:
        rr.shuffle(hs)
        hs = hs[:4000]
    for i, h in enumerate(hs):
        for g in games:
            scns.append({"id": f"h{i}", "game": g, "hist": h["hist"], "shape": h["shape"], "mapset": g in ("sm", "o2j") or i % 3 == 0,
                         "variant": ("plain", "stack_edit", "int_cols", "plain")[(i + len(g)) % 4]})
    # random rates in (0.1, 10)
    for i in range(300 if tier == "quick" else 5000):
        n, d = rr.randint(1, 100), rr.randint(1, 100)
        if not 0.1 < n / d < 10:
            continue
        scns.append({"id": f"rnd{i}", "game": games[i % len(games)], "hist": [{"n": n, "d": d}],
                     "shape": [rr.choice([0, 2]), rr.choice([0, 1]), rr.choice([0, 1]), rr.choice([0, 1])],
                     "mapset": bool(i % 2)})
    recs = pmap(drv.exec_rates, scns)
    rejects, consumed, wall = validate_traces("RateTrace", "RateTrace", recs, tag=f"c13-{tier}")
    chk.add_traces(recs, rejects)
    chk.nontrivial = len({(x["cls"], x.get("rn"), x.get("rd"), str(x.get("pre", x.get("rated", x.get("chained")))))
                          for x in recs})
    chk.rule = ("TLC enumerates every rate history (rates 1/2,1,3/2,2,3 [+4/5,5/4,11/10], depth 2 [3]) x chart shape "
                "(hits/holds/sv/sample lists empty or not); each is replayed on the five games + base Map as chart and as map set: "
                "every rate() step, the composition rate(a);rate(b) vs rate(ab), and read(write(rated)) for osu/qua/sm; "
                "plus random rates in (0.1,10). non-trivial = distinct (game.op, rate, chart)")
    for op in ("rate", "compose", "roundtrip"):
        for x in recs:
            if x["op"] == op and not x["exc"]:
                chk.sample(x, n=1 + len(chk.samples))
                break
    chk.assumptions = ["values x1000; a rated value may differ from the exact quotient by one projected unit (float division)",
                       "round trip compares the timeline (offset/length/column/bpm) at 1 ms"]
    return chk.finish()
