"""C09 - read -> convert -> write yields a valid target file with the source's timeline."""
from __future__ import annotations

from harness.common import Check, pmap
from harness.tlc import run_tlc, validate_traces
from harness.drivers import c08, c09 as drv


def run(tier: str) -> int:
    chk = Check("C09", tier)
    # the format specs behind the composition are model-checked by their own checks; here their lemmas are re-run once
    r = run_tlc("OsuMC", "OsuMC_lemmas", timeout=600)
    chk.add_model("OsuMC_lemmas", r, "column<->x lemmas, truncation model (the denotations composed here are those of C01/C02/C04/C06/C07)")
    convs = [c for c in c08.CONVERTERS if not c.endswith(".merge")]
    n = 25 if tier == "quick" else 400
    scns = []
    for i in range(n):
        for j, c in enumerate(convs):
            scns.append({"id": f"p{i}", "conv": c, "keys": [4, 7][(i + j) % 2], "offset_first": i % 3 == 0, "twice": i % 4 == 1})
    recs = pmap(drv.exec_pair, scns)
    rejects, consumed, wall = validate_traces("CrossTrace", "CrossTrace", recs, tag=f"c09-{tier}", heap="4g")
    chk.add_traces(recs, rejects)
    chk.nontrivial = len({(x["cls"], str(x["src"])[:3000]) for x in recs})
    chk.rule = ("seeded abstract charts (4 / 7 keys, highest column occupied, hits and holds on the quarter-beat grid over two measures, "
                "one or two tempo points, first tempo point at 0 or 1000 ms) are printed as osu / Quaver / StepMania / BMS / O2Jam "
                "sources, read by the library, converted with each of the 16 converters and written; source and written target are "
                "tokenised independently and TLC compares the two denoted timelines (notes, columns [+shift], hold ends, tempo points) "
                "at the coarser resolution, and checks the target's well-formedness. non-trivial = distinct (converter, source)")
    for x in recs:
        if not x["exc"] and x["tgt"] and len(chk.samples) < 2:
            chk.sample(x, n=2)
    chk.extra["pairs"] = len(convs)
    chk.assumptions = ["1 tick = 10 us; resolution: 1 ms if osu/Quaver is involved, + 1/96 beat for StepMania targets, + 1/192 beat for BMS targets",
                       "tempo: every source tempo point is a target tempo point (targets may hold additional reseated points)"]
    return chk.finish()
