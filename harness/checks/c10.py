"""C10 - timing engine: beat positions <-> millisecond offsets, snapping, cumulative beats."""
from __future__ import annotations

from harness.common import Check, pmap
from harness.tlc import run_tlc, validate_traces
from harness.drivers import c10 as drv


def run(tier: str) -> int:
    chk = Check("C10", tier)
    # 1. exhaustive model: OffsetsImpl (reverse sweep + un-permutation) refines the integration
    r = run_tlc("TempoMC", f"TempoMC_{tier}", coverage=True, timeout=3000)
    chk.add_model(f"TempoMC_{tier}", r, "invariants TypeOK, ImplRefinesRef, RoundTrip")
    for act in ("AddChange", "AddQuery", "SweepStep", "Finish"):
        if r.ok and r.coverage.get(act, [0, 0])[0] == 0:
            chk.model_violations.append(f"vacuity: action {act} never taken")
    # 2. scenario emission (tempo lists with their offset form) from the same model
    e = run_tlc("TempoMC", f"TempoMC_emit_{tier}", workers=1, timeout=3000)
    chk.add_model(f"TempoMC_emit_{tier}", e, "emits every tempo list of the model")
    tls = [p for p in e.prints if isinstance(p, dict) and p.get("kind") == "tl"]
    scns = []
    for i, t in enumerate(tls):
        full = t["t0"] < 0 or tier == "thorough" and len(t["tl"]) < 3
        maxq = 2 if full else 1
        if tier == "thorough" and len(t["tl"]) == 3 and i % 5:
            maxq = 1
        ex = drv.expand_tl(t, i, maxq, tier)
        ex[0]["bpm_ops"] = (i % 4 == 0)
        scns += ex
    recs = pmap(drv.exec_c10, scns)
    # 3. beyond the enumerated bounds: random lists, finer grids
    rnd = drv.random_scenarios(400 if tier == "quick" else 6000, tier)
    recs += pmap(drv.exec_c10_random, rnd)
    recs += pmap(drv.exec_c10, drv.snapper_scenarios(tier))
    # tempo lists in offset form whose changes are anchored slightly off the previous segment's grid
    recs += pmap(drv.exec_anchored, drv.anchored_scenarios(300 if tier == "quick" else 4000))
    # 4. TLC judges every record
    rejects, consumed, wall = validate_traces("TempoTrace", "TempoTrace", recs, tag=f"c10-{tier}")
    chk.add_traces(recs, rejects)
    # EXTENSION beyond C10: the position arithmetic under the engine (Snap normalisation / + / - / order / offset, find_lcm):
    # SnapMC is model-checked (the code-shaped normalisation agrees with the documented meaning for measure >= 0; find_lcm
    # as a state machine keeps every value a multiple of its element), its scenarios are replayed into the real functions
    # and SnapTrace judges each call; disagreements are observations, not violations of C10
    from harness.drivers import snapx
    sm = run_tlc("SnapMC", f"SnapMC_{tier}", workers=1, timeout=3000)
    chk.add_model(f"SnapMC_{tier}", sm, "EXTENSION: Snap normalisation (code = documented for measure >= 0), find_lcm state machine invariants")
    sn = run_tlc("SnapMC", "SnapMC_sanity", workers=1, timeout=600)
    if sn.ok:
        chk.model_violations.append("vacuity: SnapMC_sanity (code = documented for every measure) was expected to be violated")
    xrecs = pmap(snapx.exec_any, [p for p in sm.prints if isinstance(p, dict) and p.get("kind") in ("norm", "lcm")])
    xrej, _, _ = validate_traces("SnapTrace", "SnapTrace", xrecs, tag=f"c10x-{tier}")
    chk.add_traces(xrecs, xrej)
    chk.nontrivial = len({(str(x.get("tl")), str(x.get("qs", x.get("ts", x.get("n"))))) for x in recs
                          if x["op"] != "starts" and (x.get("qs") or x.get("ts") or x["op"] == "snapper")})
    chk.rule = ("TLC enumerates every tempo list of the bounded model (emitted with its offset form); the driver "
                "expands each with every ordered query tuple (duplicates included) over all half-beat positions, "
                "on-grid and off-grid times; plus seeded random lists (1-8 changes, grids 1/2..1/96, metronomes 1-8) "
                "and Snapper values. non-trivial = distinct (tempo list, non-empty query/time tuple) records")
    for op in ("offsets", "snaps", "beats", "snapper"):
        for x in recs:
            if x["op"] == op and (x.get("qs") or x.get("ts") or op == "snapper"):
                chk.sample(x, n=4 + len(chk.samples))
                break
    chk.extra["trace_validation_wall_s"] = round(wall, 1)
    chk.extra["exhaustive"] = False
    chk.assumptions = [
        "tick = 1 us; results of float arithmetic are compared at +-1 tick",
        "domain: tempo lists either seated (all changes on measure lines) or with constant metronome",
        "allowed fractions are accepted under both readings (declared divisions / every denominator <= max)",
        "trusted: TLC, the JSON projection in harness/drivers/c10.py",
    ]
    return chk.finish()
