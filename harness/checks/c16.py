"""C16 - timed lists behave like ordered collections of their rows."""
from __future__ import annotations

from harness.common import Check, pmap, rng, use_repo
from harness.tlc import run_tlc, validate_traces
from harness.drivers import c16 as drv


def build_scenarios(tier, chk, per_hist_classes=2, budget=None):
    r = run_tlc("ListsMC", f"ListsMC_{tier}", coverage=True, timeout=3000)
    chk.add_model(f"ListsMC_{tier}", r, "history machine; laws PartitionLaw/BetweenLaw/SortLaw/SliceLaw in every state")
    hists = [p["hist"] for p in r.prints if isinstance(p, dict) and p.get("kind") == "hist"]
    use_repo()
    names = list(drv.list_classes().keys())
    rr = rng("c16-assign")
    rr.shuffle(hists)
    if tier == "thorough" and len(hists) > 10000:          # (60 000 histories needed 30 GB of records: the kernel killed the check)
        hists = hists[:10000]
    budget = budget or (10 if tier == "quick" else 14)
    cuts = [-1000, 0, 250, 500, 1000]
    scns = []
    for i, h in enumerate(hists):
        cl = [names[(i * per_hist_classes + j) % len(names)] for j in range(per_hist_classes)]
        scns.append({"id": f"h{i}", "hist": h, "classes": cl, "cuts": cuts, "budget": budget})
    # the empty list and the bare row lists on every class with the full catalogue
    base = [[], [{"op": "row", "o": 0, "n": 500, "k": 0}],
            [{"op": "row", "o": 500, "n": 500, "k": 0}, {"op": "row", "o": -1000, "n": 0, "k": 1},
             {"op": "row", "o": 500, "n": 0, "k": 2}],
            # a hold stored tail-first (negative length) among ordinary ones, in time order
            [{"op": "row", "o": -1000, "n": 500, "k": 0}, {"op": "row", "o": 0, "n": -250, "k": 1}, {"op": "row", "o": 500, "n": 500, "k": 2}]]
    for j, h in enumerate(base):
        for nm in names:
            scns.append({"id": f"b{j}", "hist": h, "classes": [nm], "cuts": cuts, "budget": 400})
    return scns, len(names)


def suite_traces(tier, tag):
    """run (part of) the repository's own test suite under the harness-side recorder (REAMBERPY_VERIF=1) and
    return the timed-list trace records it logged"""
    import json
    import os
    import subprocess
    from harness.common import OUT, REPO, VERIF
    out = OUT / f"suite_{tag}.ndjson"
    OUT.mkdir(exist_ok=True)
    if out.exists():
        out.unlink()
    tests = ["tests/unit_tests/base", "tests/unit_tests/osu", "tests/unit_tests/qua", "tests/algorithm_tests/generate",
             "tests/algorithm_tests/utils", "tests/algorithm_tests/analysis"] if tier == "quick" else ["tests"]
    env = dict(os.environ, REAMBERPY_VERIF="1", REAMBERPY_VERIF_TRACE=str(out), PYTHONPATH=str(VERIF))
    subprocess.run(["/venv/bin/python", "-m", "pytest", "-q", "-p", "no:cacheprovider", "-p", "harness.recorder", "--timeout=900",
                    *tests], cwd=REPO, env=env, capture_output=True, text=True, timeout=3000)
    if not out.exists():
        return []
    return [json.loads(ln) for ln in out.read_text().splitlines() if ln.strip()]


def run(tier: str) -> int:
    chk = Check("C16", tier)
    scns, ncls = build_scenarios(tier, chk)
    recs = pmap(drv.exec_hist, scns)
    srecs = suite_traces(tier, "c16")
    chk.extra["records_from_repository_test_suite"] = len(srecs)
    recs += srecs
    rejects, consumed, wall = validate_traces("ListsTrace", "ListsTrace", recs, tag=f"c16-{tier}",
                                              env={"VERIF_PROP": "C16"})
    chk.add_traces(recs, rejects)
    chk.nontrivial = len({(x["cls"], str(x["pre"]), str({k: v for k, v in x.items() if k in
                          ("i", "a", "b", "mask", "t", "inc", "tail", "head", "lo", "hi", "rev", "sort", "add")}))
                          for x in recs if x["pre"]})
    chk.rule = (f"TLC enumerates every history (row lists over 3-4 offsets with duplicates x shaping ops sorted/append/after/"
                f"before/slice/deepcopy up to Depth) and emits it; each history is replayed on list classes round-robin over all "
                f"{ncls} TimedList subclasses, and in every reached state a seeded sample of the operation catalogue is probed "
                f"(full catalogue on three base lists for every class); plus the timed-list calls the repository's own tests make, recorded by harness/recorder.py. non-trivial = distinct (class.op, non-empty input, args)")
    seen = set()
    for x in recs:
        if x["op"] not in seen and x["pre"] and len(chk.samples) < 8:
            seen.add(x["op"])
            chk.sample({k: v for k, v in x.items() if k not in ("meta_pre", "meta_after", "pre_after")}, n=8)
    chk.extra["trace_validation_wall_s"] = round(wall, 1)
    chk.extra["list_classes"] = ncls
    chk.assumptions = [
        "cells are compared as canonical strings (3, 3.0 and object 3 are the same value): dtype drift is not a C16 matter",
        "sorting may return any offset-ordered permutation",
        "declared fields = the item class's _props keys (read from the code's declaration at run time)",
    ]
    return chk.finish()
