"""C07 - O2Jam reading places every note and tempo change at the time its measure implies."""
from __future__ import annotations

from harness.common import Check, pmap, rng
from harness.tlc import run_tlc, validate_traces
from harness.drivers import c07 as drv


def scenarios(tier, chk, cap):
    r = run_tlc("O2JMC", f"O2JMC_{tier}", timeout=3000)
    chk.add_model(f"O2JMC_{tier}", r, "package generator; SweepImpl (tempo events integrated in measure order) = denotation; LN pairing total")
    scs = [p for p in r.prints if isinstance(p, dict) and p.get("kind") == "ojn"]
    rr = rng("c07")
    rr.shuffle(scs)
    return scs[:cap], len(scs)


def run(tier: str) -> int:
    chk = Check("C07", tier)
    scs, n = scenarios(tier, chk, 5000 if tier == "quick" else 60000)
    scns = [{"id": f"m{i}", "lvl": s["lvl"], "bl0": s["bl0"], "variant": i} for i, s in enumerate(scs)]
    # EXTENSION beyond C07's domain: a measure-fraction package (channel 0); rejections are observations
    for i, sc in enumerate(scns[: (200 if tier == "quick" else 2000)]):
        scns.append(dict(sc, id=f"x{i}", ext=True, sig={"m": i % 2, "f1000": [750, 500, 1500][i % 3]}))
    scns += drv.random_scenarios(600 if tier == "quick" else 10000)
    recs = pmap(drv.exec_ojn, scns)
    recs += pmap(drv.exec_bundled, drv.bundled_scenarios(tier), chunk=1)
    rejects, consumed, wall = validate_traces("O2JTrace", "O2JTrace", recs, tag=f"c07-{tier}")
    chk.add_traces(recs, rejects)
    chk.nontrivial = len({str(x["file"]["lvls"]) for x in recs})
    chk.rule = ("TLC builds package lists (<= MaxNote note events incl. long notes spanning packages/measures on columns 0/6, <= MaxTempo "
                "tempo events anywhere incl. after the last note, slot counts 1..3[4]) and emits a deterministic sample; each is "
                "encoded to .ojn bytes with struct (the varied difficulty in position 1/2/3, a difficulty without packages, full-width "
                "title/artist fields), read through read()/read_file() and compared by TLC with the denotation of the independently "
                "decoded bytes; plus random files (7 columns, slot counts up to 192, up to 4 tempo events). non-trivial = distinct "
                "package lists")
    for x in recs:
        if not x["exc"] and len(x["charts"]) == 3 and any(c["holds"] for c in x["charts"]) and len(chk.samples) < 2:
            chk.sample(x, n=2)
    chk.extra["scenarios_emitted"] = n
    chk.assumptions = ["1 tick = 10 us; float32 tempo values -> beat length in ticks by the decoder (unit conversion)",
                       "no measure-fraction packages (channel 0)", "packages are stored in measure order"]
    return chk.finish()
