"""C12 - stacking writes through: editing the stack equals editing each list."""
from __future__ import annotations

from harness.charts import GAMES
from harness.common import Check, pmap, rng
from harness.tlc import run_tlc, validate_traces
from harness.drivers import c12 as drv


def run(tier: str) -> int:
    chk = Check("C12", tier)
    r = run_tlc("StackMC", f"StackMC_{tier}", timeout=3000)
    chk.add_model(f"StackMC_{tier}", r, "Stacker transcription (stacked copy, ixs, _update) refines per-list assignment while fresh")
    lost = run_tlc("StackMC", "StackMC_lost", timeout=600)
    chk.models.append({"model": "StackMC_lost", "note": "sanity: TLC exhibits the lost update of the named deviation "
                       "StaleStackWrite (expected violated invariant NoLostUpdate)", "violated": lost.violated,
                       "states_generated": lost.states})
    if lost.ok:
        chk.model_violations.append("vacuity: StaleStackWrite deviation not reachable in the model")
    hists = [p for p in r.prints if isinstance(p, dict) and p.get("kind") == "stackhist"]
    rr = rng("c12-sample")
    rr.shuffle(hists)
    cap = 6000 if tier == "quick" else 60000
    games = list(GAMES) + ["base"]
    scns = [{"id": f"h{i}", "n": h["n"], "hist": h["hist"], "games": [games[i % len(games)], games[(i + 1) % len(games)]]}
            for i, h in enumerate(hists[:cap])]
    recs = pmap(drv.exec_hist, scns)
    nr = 3000 if tier == "quick" else 40000
    rnd = [{"id": f"r{i}", "game": games[i % len(games)], "kind": "map" if i % 5 else "mapset"} for i in range(nr)]
    recs += pmap(drv.exec_random, rnd)
    rejects, consumed, wall = validate_traces("StackTrace", "StackTrace", recs, tag=f"c12-{tier}")
    chk.add_traces(recs, rejects)
    # EXTENSION beyond C12: typed access chart[T] / chart[T] = lists (Map.__getitem__/__setitem__).  AccessMC is model-checked
    # (assign-then-read returns what was assigned; the sanity configuration with the code's no-op assignment must be violated),
    # its scenarios and the five games' charts are replayed and judged by AccessTrace; disagreements are observations
    from harness.drivers import accessx
    am = run_tlc("AccessMC", "AccessMC", workers=1, timeout=900)
    chk.add_model("AccessMC", am, "EXTENSION: typed get/set of a chart's lists (SetThenGet, OthersKept)")
    if run_tlc("AccessMC", "AccessMC_sanity", workers=1, timeout=600).ok:
        chk.model_violations.append("vacuity: AccessMC_sanity (the code's assignment) was expected to violate SetThenGet")
    xrecs = pmap(accessx.exec_access, [p for p in am.prints if isinstance(p, dict) and p.get("kind") == "access"]) + accessx.exec_access_games(None)
    xrej, _, _ = validate_traces("AccessTrace", "AccessTrace", xrecs, tag=f"c12x-{tier}")
    chk.add_traces(xrecs, xrej)
    chk.nontrivial = len({(x["game"], x["op"], str(x["pre"]), str(x.get("mask")), str(x.get("cols", x.get("p"))), str(x["f"]))
                          for x in recs if not x["stale"] and any(l["rows"] for l in x["pre"])})
    chk.rule = ("TLC explores every history stack/set/loc/edit of Depth ops over 12 chart shapes (masks: singletons, complements, "
                "all, none; thorough: all 2^n) and emits it; a seeded sample of the histories is replayed on charts of the five "
                "games and the base Map; plus seeded random charts with every list populated, non-default row labels, "
                "include_types subsets and map-set stacks. non-trivial = distinct fresh (game, op, chart, mask, cols, f)")
    for op in ("set", "loc"):
        for x in recs:
            if x["op"] == op and not x["stale"] and sum(len(l["rows"]) for l in x["pre"]) >= 3:
                chk.sample(x, n=1 + len(chk.samples))
                break
    chk.extra["histories_emitted"] = len(hists)
    chk.extra["histories_replayed"] = len(scns)
    chk.extra["stale_records_not_judged"] = sum(1 for x in recs if x["stale"])
    chk.assumptions = [
        "values scaled by 1000 and compared exactly (all scenario arithmetic is exact in floats)",
        "dtype widening (int -> float) caused by the write-back is not a change of value",
        "writes through a stacker made stale by a direct list edit (StaleStackWrite) are executed but not judged",
        "a mask is an explicit boolean vector over the stacked rows",
    ]
    return chk.finish()
