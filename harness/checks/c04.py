"""C04 - BMS reading places every object at the time its measure position and tempo imply."""
from __future__ import annotations

from harness.common import Check, pmap, rng
from harness.tlc import run_tlc, validate_traces
from harness.drivers import c04 as drv


def scenarios(tier, chk, cap):
    r = run_tlc("BMSMC", f"BMSMC_{tier}", timeout=3000)
    chk.add_model(f"BMSMC_{tier}", r, "token-file generator for the five layouts; denotation total, LN pairing")
    scs = [p for p in r.prints if isinstance(p, dict) and p.get("kind") == "bms"]
    rr = rng("c04")
    rr.shuffle(scs)
    return scs[:cap], len(scs)


def run(tier: str) -> int:
    chk = Check("C04", tier)
    scs, n = scenarios(tier, chk, 6000 if tier == "quick" else 60000)
    scns = [{"id": f"m{i}", "layout": s["layout"], "file": s["file"], "variant": i} for i, s in enumerate(scs)]
    # EXTENSION beyond C04's domain: a channel-02 line (time signature of one measure); rejections are observations
    for i, sc in enumerate(scns[: (300 if tier == "quick" else 3000)]):
        scns.append(dict(sc, id=f"x{i}", ext=True, sigs=[{"m": i % 2, "f1000": [750, 500, 1500][i % 3]}]))
    # files whose measure 0 holds a mid-measure tempo change and, later in file order, an override of #BPM at its start
    plain = [sc for sc in scns if not sc.get("ext") and not any(ln["ch"] in ("03", "08") for ln in sc["file"]["lines"])]
    for i, sc in enumerate(plain[: (150 if tier == "quick" else 1500)]):
        scns.append(dict(sc, id=f"o{i}", override=True, variant=6 * i))       # variant % 6 == 0: file order kept, lines not merged
    recs = pmap(drv.exec_bms, scns)
    recs += pmap(drv.exec_bundled, drv.bundled_scenarios(tier), chunk=1)
    rejects, consumed, wall = validate_traces("BMSTrace", "BMSTrace", recs, tag=f"c04-{tier}")
    chk.add_traces(recs, rejects)
    chk.nontrivial = len({str(x["file"]["lines"]) + x["layout"] for x in recs})
    chk.rule = ("TLC builds token files for each of the five layouts (<= MaxObj lane objects incl. LNOBJ ends at i/d of measures "
                "0..MaxM, d in 1..4, tempo events on channels 03/08) and emits a deterministic sample with the denotation; each is "
                "printed with the lines in file order or shuffled (an LNOBJ line may precede its head's line), lines of one "
                "(measure, channel, d) merged or kept apart, upper/lower case ids, read through read()/read_file() and compared by "
                "TLC with the denotation of the independently lexed text. non-trivial = distinct (layout, lines)")
    for x in recs:
        if not x["exc"] and x["chart"].get("holds") and len(chk.samples) < 2:
            chk.sample(x, n=2)
    chk.extra["scenarios_emitted"] = n
    chk.assumptions = ["1 tick = 10 us; tolerance 4 ticks + 1 per tempo segment", "4/4 only (no channel 02)",
                       "bpm text -> beat length in ticks is done by the lexer (unit conversion)"]
    return chk.finish()
