"""C06 - Quaver file and in-memory chart denote the same chart, both directions."""
from __future__ import annotations

from harness.common import Check, pmap, rng
from harness.tlc import run_tlc, validate_traces
from harness.drivers import c06 as drv


def run(tier: str) -> int:
    chk = Check("C06", tier)
    r = run_tlc("QuaMC", f"QuaMC_{tier}", timeout=3000)
    chk.add_model(f"QuaMC_{tier}", r, "document generator; denotation total, defaults for omitted keys")
    scs = [p for p in r.prints if isinstance(p, dict) and p.get("kind") == "qua"]
    rr = rng("c06")
    rr.shuffle(scs)
    cap = 4000 if tier == "quick" else 50000
    scns = [{"id": f"m{i}", "objs": s["objs"], "tps": s["tps"], "svs": s["svs"], "variant": i} for i, s in enumerate(scs[:cap])]
    scns += drv.pair_scenarios()
    recs = pmap(drv.exec_doc, scns)
    hows = ["built", "rated", "stacked", "full_ln", "OsuToQua", "SMToQua", "BMSToQua", "O2JToQua"]
    hists = [[], ["rate"], ["filter"], ["sort_rev"], ["stack_write"], ["append"]]
    n = 600 if tier == "quick" else 8000
    cs = [{"id": f"c{i}", "how": hows[i % len(hows)], "n": i % 23, "hist": hists[(i // len(hows)) % len(hists)]} for i in range(n)]
    recs += pmap(drv.exec_chart, cs)
    recs += pmap(drv.exec_bundled, drv.bundled_scenarios(tier), chunk=1)
    rejects, consumed, wall = validate_traces("QuaTrace", "QuaTrace", recs, tag=f"c06-{tier}")
    chk.add_traces(recs, rejects)
    chk.nontrivial = len({(x["op"], x["cls"], str(x.get("doc", x.get("gens")))[:2000]) for x in recs})
    chk.rule = ("TLC emits abstract documents (objects with StartTime/KeySounds present or omitted, EndTime or not, lanes 1/4/7; timing "
                "points and SVs with omitted StartTime / Multiplier; empty sections); each is dumped to YAML in three styles with "
                "metadata strings needing quoting, read by the library and compared with the denotation of the PyYAML-parsed tree; "
                "written, the written document judged for schema (keys, value types) and denotation within 1 ms, re-read and taken "
                "through 3 generations; plus charts built in memory, rate-changed, stack-edited, full-LN'ed and converted from "
                "osu/SM/BMS/O2Jam after source histories. non-trivial = distinct records")
    for op in ("read", "write", "generations"):
        for x in recs:
            if x["op"] == op and not x["exc"]:
                chk.sample({k: (v if k != "gens" else v[:1]) for k, v in x.items()}, n=1 + len(chk.samples))
                break
    chk.assumptions = ["YAML text <-> tree by PyYAML (trusted)", "omitted Multiplier denotes 1.0 (the reader's documented default), "
                       "omitted StartTime 0, omitted KeySounds []", "scalar metadata types beyond the string fields are not judged"]
    return chk.finish()
