"""C01 - osu!mania file and in-memory chart denote the same chart, both directions."""
from __future__ import annotations

from harness.common import Check, pmap, rng
from harness.tlc import run_tlc, validate_traces
from harness.drivers import c01 as drv


def run(tier: str) -> int:
    chk = Check("C01", tier)
    r = run_tlc("OsuMC", f"OsuMC_{tier}", timeout=3000)
    chk.add_model(f"OsuMC_{tier}", r, "column<->x lemmas for 1..18 keys (ASSUME), truncation model; generator of token files")
    scs = [p for p in r.prints if isinstance(p, dict) and p.get("kind") == "osu"]
    rr = rng("c01")
    rr.shuffle(scs)
    cap = 5000 if tier == "quick" else 60000
    scns = [{"id": f"m{i}", "keys": s["keys"], "objs": s["objs"], "tps": s["tps"], "variant": i,
             "samples": [{"t": 1500500, "file": "a b.wav", "vol": 60}] if i % 4 == 0 else []} for i, s in enumerate(scs[:cap])]
    # every (keys, x): one file per key count holding a hit at every x of 0..512
    for k in range(1, 19):
        objs = [{"x": x, "y": 192, "t": 10000 * x, "type": 1, "hs": 0, "end": 0, "ss": 0, "as": 0, "ci": 0, "vol": 0,
                 "file": "", "arity": 5} for x in range(0, 513)]
        scns.append({"id": f"allx{k}", "keys": k, "objs": objs,
                     "tps": [{"t": 0, "code": 50000, "meter": 4, "ss": 0, "si": 0, "vol": 100, "uninh": 1, "fx": 0, "arity": 8}],
                     "variant": k})
    recs = pmap(drv.exec_osu, scns)
    nc = 1200 if tier == "quick" else 20000
    recs += pmap(drv.exec_chart, [{"id": f"c{i}", "keys": 1 + i % 18, "n": 1 + i % 40, "neg_sv": i % 3 == 0} for i in range(nc)])
    recs += pmap(drv.exec_bundled, drv.bundled_scenarios(tier), chunk=2)
    rejects, consumed, wall = validate_traces("OsuTrace", "OsuTrace", recs, tag=f"c01-{tier}", heap="4g")
    chk.add_traces(recs, rejects)
    chk.nontrivial = len({(x["op"], str(x.get("file", x.get("gens")))[:3000]) for x in recs})
    chk.rule = ("TLC emits token files (every key count of the tier, x at first/centre/last pixel of edge columns, times -1.5/0/0.5/"
                "999.875/1000 ms, type flags 1/5/128/132, hitsound fields, tempo and SV lines); each is printed as text with metadata "
                "variants (values with ':', non-ASCII, padded, CRLF), read by the library and compared by TLC with the denotation of "
                "the independently lexed tokens; the chart is written, the written text lexed and judged (well-formed, denotes the "
                "chart within 1 ms), re-read (exact) and taken through 3 generations; one file per key count 1..18 holds a hit at "
                "every x in 0..512; plus seeded in-memory charts (fractional, negative, large times) and the repository's bundled .osu maps cut into self-contained files of <=120 objects. non-trivial = distinct records")
    for op in ("read", "write", "generations"):
        for x in recs:
            if x["op"] == op and not x["exc"] and x["id"].startswith("m"):
                chk.sample({k: (v if k != "gens" else v[:1]) for k, v in x.items()}, n=1 + len(chk.samples))
                break
    chk.extra["token_files_emitted"] = len(scs)
    chk.assumptions = ["the text layer is split by harness/osu_text.py (independent of the library); TLC interprets the tokens",
                       "times x1000, bpm and beat length x100, SV x10000; a written time may move by less than 1 ms",
                       "Title/Artist are kept ASCII in scenarios (the writer transliterates them by design); sample file names "
                       "are compared without surrounding quotes"]
    return chk.finish()
