"""C02 - StepMania reading places every object at the time its beat and tempos imply."""
from __future__ import annotations

from harness.common import Check, pmap, rng
from harness.tlc import run_tlc, validate_traces
from harness.drivers import c02 as drv


def scenarios(tier, chk, cap):
    r = run_tlc("SMMC", f"SMMC_{tier}", timeout=3000)
    chk.add_model(f"SMMC_{tier}", r, "token-file generator; the denotation finds one object per generated object, heads/tails balanced")
    scs = [p for p in r.prints if isinstance(p, dict) and p.get("kind") == "sm"]
    rr = rng("c02")
    rr.shuffle(scs)
    return scs[:cap], len(scs)


def run(tier: str) -> int:
    chk = Check("C02", tier)
    scs, n_emitted = scenarios(tier, chk, 6000 if tier == "quick" else 60000)
    types = ["dance-single", "dance-threepanel", "dance-solo", "kb7-single", "dance-double"]
    # two chart types share their key count with another one (dance-couple = 4, dance-routine = 8)
    alias = {"dance-single": "dance-couple", "dance-double": "dance-routine"}
    scs = [dict(s, type=alias.get(s["type"], s["type"])) if i % 9 == 2 else s for i, s in enumerate(scs)]
    scns = [dict(s, id=f"m{i}", variant=i, second_chart=types[i % 5] if i % 3 == 0 else None,
                 title=["Song", "So ng", "a b"][i % 3]) for i, s in enumerate(scs)]
    # EXTENSION beyond C02's domain: files with one #STOPS entry (rejections are observations, not violations)
    ext = []
    for i, sc in enumerate(scns[: (300 if tier == "quick" else 3000)]):
        if sc["objs"]:
            ext.append(dict(sc, id=f"x{i}", ext=True, second_chart=None,
                            stops=[{"p48": [48, 96, 192, 24][i % 4], "len": [25000, 10000][i % 2]}]))
    scns += ext
    scns += drv.random_scenarios(800 if tier == "quick" else 12000)
    recs = pmap(drv.exec_sm, scns)
    recs += pmap(drv.exec_bundled, drv.bundled_scenarios(tier), chunk=1)
    rejects, consumed, wall = validate_traces("SMTrace", "SMTrace", recs, tag=f"c02-{tier}", heap="4g")
    chk.add_traces(recs, rejects)
    chk.nontrivial = len({str(x["file"])[:4000] for x in recs})
    chk.rule = ("TLC builds token files (chart type, two measures with chosen row counts, <=2 objects of the 8 symbols incl. "
                "head/tail pairs, <=2..3 tempo changes on the half-beat grid, offsets) and emits a deterministic sample; each is "
                "printed as text in three styles (comments, blank lines, CRLF; a second chart of another type), read by the "
                "library through read(str) / read(list) / read_file and compared by TLC with the denotation of the independently "
                "lexed tokens; plus seeded random files (up to 6 measures of 4..192 rows incl. 20/28/36, 10 objects, 4 tempo changes on the 1/48 grid). non-trivial = distinct token files")
    for x in recs:
        if not x["exc"] and x["charts"] and x["charts"][0]["holds"] and len(chk.samples) < 2:
            chk.sample(x, n=2)
    chk.extra["scenarios_emitted"] = n_emitted
    chk.assumptions = ["1 tick = 10 us; tolerance 4 ticks + 1 per tempo segment (float arithmetic in the code, integer division in the spec)",
                       "bpm text -> beat length in ticks is done by the lexer (unit conversion)", "no #STOPS"]
    return chk.finish()
