"""C03 - StepMania writing produces a file that denotes the in-memory mapset."""
from __future__ import annotations

from harness.common import Check, pmap
from harness.tlc import validate_traces
from harness.checks import c02
from harness.drivers import c03 as drv


def run(tier: str) -> int:
    chk = Check("C03", tier)
    scs, n_emitted = c02.scenarios(tier, chk, 5000 if tier == "quick" else 50000)
    hows = ["built", "read", "rated", "from_osu", "edit_rewrite", "unsorted_bpms", "rated_odd", "dup_tempo"]
    scns = []
    for i, s in enumerate(scs):
        if not s["objs"]:
            continue
        # objects of one column must not collide after snapping: the generator's cells are distinct by construction
        if i % 9 == 2:
            s = dict(s, type={"dance-single": "dance-couple", "dance-double": "dance-routine"}.get(s["type"], s["type"]))
        scns.append(dict(s, id=f"m{i}", how=hows[i % len(hows)], selectable=(i % 4 != 1), two_charts=(i % 6 == 0),
                         title=["Song", "a b", "日本"][i % 3]))
    # beyond the model: random sets with tempo changes anywhere on the 1/48-beat grid; their times come from the spec (SMCalc)
    from harness.drivers import c02 as d2
    from harness.tlc import tlc_compute
    rnd = d2.random_scenarios(400 if tier == "quick" else 6000)
    rnd = [s for s in rnd if s["objs"] and max(s["rows"]) <= 48]
    tm = tlc_compute("SMCalc", [{"id": s["id"], "rows": s["rows"], "objs": s["objs"], "bpms": s["bpms"], "off": s["off"]} for s in rnd],
                     tag=f"c03calc-{tier}")
    for j, s in enumerate(rnd):
        s["times"], s["starts"] = tm[s["id"]]["times"], tm[s["id"]]["starts"]
        s["how"] = ["built", "rated", "read", "rated_odd"][j % 4]
        s["id"] = "rnd" + s["id"]
        scns.append(s)
    recs = pmap(drv.exec_write, scns)
    rejects, consumed, wall = validate_traces("SMTrace", "SMTrace", recs, tag=f"c03-{tier}", heap="4g")
    chk.add_traces(recs, rejects)
    chk.nontrivial = len({(x["cls"], str(x.get("charts", x.get("first")))[:3000]) for x in recs})
    chk.rule = ("the scenarios of the SM generator model (with the object and tempo times the spec computes, emitted by TLC) are built "
                "as in-memory map sets (one or two charts, all object kinds, chart types, selectable yes/no, tempo changes on and off "
                "measure lines), or obtained by reading, by rate changes, by conversion from osu; each is written, the text lexed "
                "independently and judged by TLC (well-formed tokens, denotation = the in-memory set: exact on measure-line tempo "
                "lists, else within 1/96 beat), read back (header fields kept) and written/read again (same result). "
                "non-trivial = distinct (history, charts)")
    for x in recs:
        if x["op"] == "write" and not x["exc"] and len(chk.samples) < 2:
            chk.sample(x, n=2)
    chk.extra["scenarios_emitted"] = n_emitted
    chk.assumptions = ["1 tick = 10 us", "in-memory sets have #OFFSET equal to the first tempo point and one shared tempo list (the property's domain)"]
    return chk.finish()
