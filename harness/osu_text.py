"""Independent tokeniser / printer for .osu text (v14 mania).  NOT the library's reader:
it only splits the text into the tokens spec/OsuFmt.tla interprets."""
from __future__ import annotations

META_SECTIONS = ("General", "Editor", "Metadata", "Difficulty")


def limbs(n: int):
    """TLC integers are 32 bit: a value x1000 beyond +-2e9 (beatmap ids) is carried as (hi, lo) with n = hi * 10^9 + lo"""
    if abs(n) <= 2_000_000_000:
        return 0, n
    hi = n // 1_000_000_000
    return hi, n - hi * 1_000_000_000


def _num(s):
    try:
        f = float(s)
        if f != f or f in (float("inf"), float("-inf")):
            return 0, False
        return int(round(f * 1000)), True
    except (TypeError, ValueError):
        return 0, False


def _int(s, scale=1):
    return int(round(float(s) * scale))


def lex(text) -> dict:
    lines = text if isinstance(text, list) else text.split("\n")
    # the writer emits list elements that themselves start with "\n"
    flat = []
    for ln in lines:
        flat.extend(str(ln).split("\n"))
    tok = {"version": "", "sections": [], "meta": [], "tps": [], "objs": [], "samples": [], "bg": "", "junk": 0, "keys": 0}
    sec = None
    for raw in flat:
        line = raw.strip().lstrip("﻿")
        if not line:
            continue
        if not tok["version"] and sec is None and not line.startswith("["):
            tok["version"] = line
            continue
        if line.startswith("[") and line.endswith("]"):
            sec = line[1:-1]
            tok["sections"].append(sec)
            continue
        if line.startswith("//"):
            continue
        if sec in META_SECTIONS:
            if ":" not in line:
                tok["junk"] += 1
                continue
            k, v = line.split(":", 1)
            v = v.strip()
            n, isn = _num(v)
            hi, n = limbs(n)
            tok["meta"].append({"key": k.strip(), "raw": v, "words": v.split(), "num": n, "hi": hi, "isnum": isn})
            if k.strip() == "CircleSize" and isn:
                tok["keys"] = n // 1000
        elif sec == "Events":
            f = line.split(",")
            if f[0] == "Sample" and len(f) >= 5:
                tok["samples"].append({"t": _int(f[1], 1000), "file": f[3].strip().strip('"'), "vol": _int(f[4])})
            elif f[0] in ("0", "Background") and len(f) >= 3 and '"' in line:
                tok["bg"] = line[line.find('"') + 1:line.rfind('"')]
            else:
                tok["junk"] += 1
        elif sec == "TimingPoints":
            f = line.split(",")
            try:
                tp = {"t": _int(f[0], 1000), "code": _int(f[1], 100), "meter": _int(f[2]) if len(f) > 2 else 4,
                      "ss": _int(f[3]) if len(f) > 3 else 0, "si": _int(f[4]) if len(f) > 4 else 0,
                      "vol": _int(f[5]) if len(f) > 5 else 100, "uninh": _int(f[6]) if len(f) > 6 else 1,
                      "fx": _int(f[7]) if len(f) > 7 else 0, "arity": len(f)}
                tok["tps"].append(tp)
            except (ValueError, IndexError):
                tok["junk"] += 1
        elif sec == "HitObjects":
            f = line.split(",")
            try:
                ex = f[5].split(":") if len(f) > 5 else []
                typ = _int(f[3])
                hold = (typ // 128) % 2 == 1
                o = {"x": _int(f[0]), "y": _int(f[1]), "t": _int(f[2], 1000), "type": typ, "hs": _int(f[4]),
                     "end": 0, "ss": 0, "as": 0, "ci": 0, "vol": 0, "file": "", "arity": len(ex)}
                if hold and ex:
                    o["end"] = _int(ex[0], 1000)
                    ex = ex[1:]
                names = ["ss", "as", "ci", "vol"]
                for nm, v in zip(names, ex):
                    o[nm] = _int(v) if v != "" else 0
                if len(ex) > 4:
                    o["file"] = ":".join(ex[4:])
                tok["objs"].append(o)
            except (ValueError, IndexError):
                tok["junk"] += 1
        else:
            tok["junk"] += 1
    return tok


def _dec(v, scale):
    """print an integer token at `scale` as a decimal string"""
    s = "-" if v < 0 else ""
    v = abs(v)
    if v % scale == 0:
        return f"{s}{v // scale}"
    return f"{s}{v // scale}.{str(v % scale).rjust(len(str(scale)) - 1, '0').rstrip('0')}"


def concretize(tok, meta_lines, style=0) -> list[str]:
    """tokens -> lines of a .osu file (v14).  style varies the harmless formatting."""
    nl = []
    nl.append("osu file format v14")
    nl.append("")
    by_sec = {s: [] for s in META_SECTIONS}
    for sec, key, val in meta_lines:
        by_sec[sec].append((key, val))
    for sec in META_SECTIONS:
        nl.append(f"[{sec}]")
        for key, val in by_sec[sec]:
            sep = ": " if sec in ("General", "Editor") or style == 1 else ":"
            nl.append(f"{key}{sep}{val}")
        nl.append("")
    nl.append("[Events]")
    nl.append("//Background and Video events")
    nl.append(f'0,0,"{tok.get("bg", "")}",0,0')
    nl.append("//Break Periods")
    nl.append("//Storyboard Sound Samples")
    for s in tok.get("samples", []):
        nl.append(f'Sample,{_dec(s["t"], 1000)},0,"{s["file"]}",{s["vol"]}')
    nl.append("")
    nl.append("[TimingPoints]")
    for tp in tok["tps"]:
        nl.append(f'{_dec(tp["t"], 1000)},{_dec(tp["code"], 100)},{tp["meter"]},{tp["ss"]},{tp["si"]},{tp["vol"]},'
                  f'{tp["uninh"]},{tp["fx"]}')
    nl.append("")
    nl.append("")
    nl.append("[HitObjects]")
    for o in tok["objs"]:
        ex = f'{o["ss"]}:{o["as"]}:{o["ci"]}:{o["vol"]}:{o["file"]}'
        if (o["type"] // 128) % 2:
            ex = f'{_dec(o["end"], 1000)}:' + ex
        nl.append(f'{o["x"]},{o["y"]},{_dec(o["t"], 1000)},{o["type"]},{o["hs"]},{ex}')
    if style == 2:
        nl = [ln + "\r" for ln in nl]      # CRLF file split on "\n"
    return nl
