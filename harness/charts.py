"""Building small charts of each game from abstract content (inputs only)."""
from __future__ import annotations

from harness.common import ms

GAMES = ("osu", "qua", "sm", "bms", "o2j")


def map_class(game):
    if game == "osu":
        from reamber.osu.OsuMap import OsuMap
        return OsuMap
    if game == "qua":
        from reamber.quaver.QuaMap import QuaMap
        return QuaMap
    if game == "sm":
        from reamber.sm.SMMap import SMMap
        return SMMap
    if game == "bms":
        from reamber.bms.BMSMap import BMSMap
        return BMSMap
    if game == "o2j":
        from reamber.o2jam.O2JMap import O2JMap
        return O2JMap
    from reamber.base.Map import Map
    return Map


def mapset_class(game):
    if game == "sm":
        from reamber.sm.SMMapSet import SMMapSet
        return SMMapSet
    if game == "o2j":
        from reamber.o2jam.O2JMapSet import O2JMapSet
        return O2JMapSet
    from reamber.base.MapSet import MapSet
    return MapSet


def _fill(cls, rows):
    """rows: list of dicts of declared fields (offset in ms ...) -> list object via from_dict
    (all keys present in every row) or [] -> empty list."""
    if not rows:
        return cls([])
    return cls.from_dict(rows)


def new_map(game, content: dict):
    """content: {list name: [row dicts in real units]}; lists not named stay empty."""
    m = map_class(game)()
    for name, rows in content.items():
        if name not in m.objs:
            continue
        cls = type(m.objs[name])
        m.objs[name] = _fill(cls, [complete_row(cls, r) for r in rows])
    return m


def complete_row(cls, r: dict) -> dict:
    """every declared field explicitly (declared default where the scenario says nothing)."""
    props = cls._item_class()._props
    out = {}
    for f, (_, d) in props.items():
        if f in r:
            out[f] = r[f]
        else:
            out[f] = list(d) if isinstance(d, list) else d
    if "sample" in props and "sample" not in r:
        out["sample"] = b""
    return out


def basic_content(nh, nl, nb, t_scale=1.0):
    """the three-list chart of the Stack model (offsets in ms)."""
    hits = [{"offset": 0.0, "column": 0}, {"offset": 500.0, "column": 1}][:nh]
    holds = [{"offset": 250.0, "column": 2, "length": 500.0}][:nl]
    bpms = [{"offset": 0.0, "bpm": 120.0, "metronome": 4}][:nb]
    return {"hits": hits, "holds": holds, "bpms": bpms}
