"""Independent tokeniser / printer for StepMania .sm text (NOT the library's reader)."""
from __future__ import annotations

import re

KEYS = {"dance-single": 4, "dance-double": 8, "dance-solo": 6, "dance-couple": 4, "dance-threepanel": 3,
        "dance-routine": 8, "kb7-single": 7}
T = 100   # ticks per ms


def _ticks_s(sec: float) -> int:
    return int(round(sec * 1000 * T))


def lex(text: str) -> dict:
    text = text.replace("\r\n", "\n").replace("\r", "\n")
    text = re.sub(r"//[^\n]*", "", text)          # comments run to the end of the line
    tok = {"hdr": [], "junk": 0, "off": 0, "bpms": [], "charts": [], "stops": [],
           "sample_start": 0, "sample_length": 0, "bpms_exact": True}
    for piece in text.split(";"):
        p = piece.strip()
        if not p:
            continue
        if not p.startswith("#") or ":" not in p:
            tok["junk"] += 1
            continue
        tag, val = p[1:].split(":", 1)
        tag = tag.strip().upper()
        if tag == "NOTES":
            parts = val.split(":")
            ch = {"nfields": len(parts) + 0, "type": "", "desc": "", "diff": "", "meter": "", "radar": "", "keys": 0,
                  "cells": [], "rows": [], "widths": [], "symbols": []}
            ch["nfields"] = len(parts) + 0
            if len(parts) >= 6:
                ch["type"], ch["desc"], ch["diff"], ch["meter"] = (x.strip() for x in parts[:4])
                ch["radar"] = ",".join(x.strip() for x in parts[4].strip().split(","))
                ch["keys"] = KEYS.get(ch["type"], 0)
                data = ":".join(parts[5:])
                ch["cells"], ch["rows"], widths, symbols = [], [], set(), set()
                for mi, meas in enumerate(data.split(",")):
                    rows = [ln.strip() for ln in meas.split("\n") if ln.strip()]
                    ch["rows"].append(len(rows))
                    for ri, row in enumerate(rows):
                        widths.add(len(row))
                        for ci, sym in enumerate(row):
                            symbols.add(sym)
                            if sym != "0":
                                ch["cells"].append({"m": mi + 1, "r": ri + 1, "c": ci + 1, "n": len(rows), "s": sym})
                ch["widths"], ch["symbols"] = sorted(widths), sorted(symbols)
                ch["nfields"] = 6 if len(parts) == 6 else len(parts)
            tok["charts"].append(ch)
            continue
        v = val.strip()
        tok["hdr"].append({"tag": tag, "val": v})
        try:
            if tag == "OFFSET":
                tok["off"] = _ticks_s(-float(v))
            elif tag == "SAMPLESTART":
                tok["sample_start"] = _ticks_s(float(v))
            elif tag == "SAMPLELENGTH":
                tok["sample_length"] = _ticks_s(float(v))
            elif tag == "BPMS":
                for pair in v.replace("\n", "").split(","):
                    if not pair.strip():
                        continue
                    b, bpm = pair.split("=")
                    beat, bpm = float(b), float(bpm)
                    p = round(beat * 4800)
                    if abs(beat * 4800 - p) > 1e-6:
                        tok["bpms_exact"] = False
                    tok["bpms"].append({"p": int(p), "bl": int(round(60000.0 / bpm * T)), "bpm1000": int(round(bpm * 1000))})
            elif tag == "STOPS":
                for pair in v.replace("\n", "").split(","):
                    if pair.strip():
                        b, ln = pair.split("=")
                        tok["stops"].append({"p": int(round(float(b) * 4800)), "len": _ticks_s(float(ln))})
        except (ValueError, ZeroDivisionError):
            tok["junk"] += 1
    return tok


def _fmt(x):
    s = f"{x:.6f}".rstrip("0").rstrip(".")
    return s if s else "0"


def build_measures(scn, keys):
    """lay the abstract objects of a SMMC scenario out as rows of symbols"""
    rows = list(scn["rows"])
    grid = [["0"] * keys for _ in range(sum(rows))]
    for o in scn["objs"]:
        grid[o["i"]][o["c"]] = o["k"]
        if o["k"] in ("2", "4"):
            grid[o["j"]][o["c"]] = "3"
    out, at = [], 0
    for n in rows:
        out.append(grid[at:at + n])
        at += n
    return out


def concretize(scn, style=0, extra_charts=()) -> str:
    keys = KEYS[scn["type"]]
    out = []
    nl = "\r\n" if style == 2 else "\n"
    hdr = [("TITLE", scn.get("title", "Song")), ("SUBTITLE", ""), ("ARTIST", scn.get("artist", "Art")), ("TITLETRANSLIT", ""),
           ("SUBTITLETRANSLIT", ""), ("ARTISTTRANSLIT", ""), ("GENRE", ""), ("CREDIT", "me"), ("BANNER", ""), ("BACKGROUND", "bg.png"),
           ("LYRICSPATH", ""), ("CDTITLE", ""), ("MUSIC", "a.ogg"), ("OFFSET", _fmt(-scn["off"] / T / 1000)),
           ("SAMPLESTART", "12.5"), ("SAMPLELENGTH", "10"), ("SELECTABLE", "YES"),
           ("BPMS", ("," + (nl if style == 1 else "")).join(f"{_fmt(b['p48'] / 48)}={_fmt(60000.0 * T / b['bl'])}" for b in scn["bpms"])),
           ("STOPS", ",".join(f"{_fmt(st['p48'] / 48)}={_fmt(st['len'] / T / 1000)}" for st in scn.get("stops", []))), ("BGCHANGES", "")]
    for t, v in hdr:
        out.append(f"#{t}:{v};")
        if style == 1 and t == "ARTIST":
            out.append("// a comment line")
            out.append("")
    charts = [(scn["type"], build_measures(scn, keys), "Hard", "7")] + list(extra_charts)
    for typ, measures, diff, meter in charts:
        out.append(f"//---------------{typ} - ----------------")
        out.append("#NOTES:")
        out.append(f"     {typ}:")
        out.append("     :")
        out.append(f"     {diff}:")
        out.append(f"     {meter}:")
        out.append("     0.1,0.2,0.3,0.4,0.5:")
        body = []
        for mi, meas in enumerate(measures):
            rows = ["".join(r) for r in meas]
            if style == 1:
                rows = rows[:1] + [""] + rows[1:]
            body.append(nl.join(rows))
        sep = [(nl + ",  // measure " + str(mi + 1) + nl) if style == 1 else (nl + "," + nl) for mi in range(len(body))]
        txt = body[0]
        for mi in range(1, len(body)):
            txt += sep[mi] + body[mi]
        out.append(txt)
        out.append(";")
    return nl.join(out) + nl
