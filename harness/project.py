"""Syntactic projection of reamber objects into the spec's vocabulary (no semantics here)."""
from __future__ import annotations

import json
import math

from harness.common import ticks


class ProjectionError(Exception):
    pass


def sval(v) -> str:
    """Canonical string of a scalar cell, independent of the dtype that carries it
    (int 3, float 3.0 and object 3 all print "3")."""
    import numpy as np
    if v is None:
        return "None"
    if isinstance(v, (bool, np.bool_)):
        return "True" if bool(v) else "False"
    if isinstance(v, (int, np.integer)):
        return str(int(v))
    if isinstance(v, (float, np.floating)):
        f = float(v)
        if math.isnan(f):
            return "nan"
        if math.isinf(f):
            return "inf" if f > 0 else "-inf"
        if f.is_integer() and abs(f) < 1e15:
            return str(int(f))
        return repr(f)
    if isinstance(v, (bytes, np.bytes_)):
        return bytes(v).decode("latin-1")
    if isinstance(v, str):
        return v
    if isinstance(v, (list, tuple, dict)):
        return json.dumps(v, default=str, sort_keys=True)
    return str(v)


def tick_of(v, what="offset") -> int:
    import numpy as np
    if v is None or isinstance(v, str):
        raise ProjectionError(f"{what} is {v!r}")
    f = float(v)
    if not math.isfinite(f):
        raise ProjectionError(f"{what} is {f}")
    return ticks(f)


def declared_fields(list_cls) -> list[str]:
    """The fields the item class of a list class declares (its `_props`)."""
    return list(list_cls._item_class()._props.keys())


def other_fields(decl: list[str]) -> list[str]:
    return sorted(f for f in decl if f not in ("offset", "length"))


def proj_row(get, decl: list[str]) -> dict:
    """get(name) -> cell.  Row = {o: ticks, n: ticks, x: [other declared fields as strings]}."""
    row = {"o": tick_of(get("offset"))}
    row["n"] = tick_of(get("length"), "length") if "length" in decl else 0
    row["x"] = [sval(get(f)) for f in other_fields(decl)]
    return row


def proj_list(tl, decl: list[str] | None = None) -> list[dict]:
    """Rows of a TimedList in positional order; missing declared columns project as "<missing>"."""
    decl = decl or declared_fields(type(tl))
    df = tl.df
    cols = list(df.columns)
    rows = []
    for i in range(len(df)):
        r = df.iloc[i]

        def get(name, r=r):
            if name not in cols:
                if name in ("offset", "length"):
                    raise ProjectionError(f"column {name} missing")
                return "<missing>"
            v = r[name]
            if hasattr(v, "iloc") and not isinstance(v, (str, bytes, list)):
                raise ProjectionError(f"duplicate column {name}")
            return v
        rows.append(proj_row(get, decl))
    return rows


def proj_item(item, decl: list[str]) -> dict:
    data = item.data

    def get(name):
        if name not in data.index:
            if name in ("offset", "length"):
                raise ProjectionError(f"field {name} missing")
            return "<missing>"
        return data[name]
    return proj_row(get, decl)


def list_meta(tl) -> dict:
    """Everything about a list besides its row values: columns, dtypes, row labels."""
    df = tl.df
    return {"cols": [str(c) for c in df.columns], "dtypes": [str(t) for t in df.dtypes],
            "labels": [sval(x) for x in df.index]}
