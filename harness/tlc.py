"""Run TLC and parse what it prints.

All semantic judgement of the framework is made by TLC; this module only starts the JVMs,
collects `PrintT` output (JSON strings emitted with `ToJson`, or small TLA+ tuples) and the
state-space statistics.
"""
from __future__ import annotations

import json
import os
import re
import shutil
import subprocess
import time
from concurrent.futures import ThreadPoolExecutor
from dataclasses import dataclass, field
from pathlib import Path

VERIF = Path(__file__).resolve().parent.parent
SPEC = VERIF / "spec"
OUT = Path(os.environ.get("VERIF_OUT", VERIF / "out"))
JAR = "/opt/veriftools/tla/tla2tools.jar:/opt/veriftools/tla/CommunityModules-deps.jar"


class MachineryError(Exception):
    """TLC could not run to a verdict (parse error, overflow, timeout ...): exit code 2."""


@dataclass
class TlcResult:
    ok: bool  # no invariant/property violation, no evaluation error
    states: int = 0  # states generated
    distinct: int = 0
    prints: list = field(default_factory=list)  # parsed PrintT payloads
    raw: str = ""
    violated: str | None = None
    wall_s: float = 0.0
    coverage: dict = field(default_factory=dict)


_STR_LINE = re.compile(r'^"(.*)"$')


def _unescape(s: str) -> str:
    # TLA+ string printed by TLC: backslash escapes for \" and \\ (and \n, \t)
    out = []
    i = 0
    while i < len(s):
        c = s[i]
        if c == "\\" and i + 1 < len(s):
            n = s[i + 1]
            out.append({"n": "\n", "t": "\t", "r": "\r", "f": "\f"}.get(n, n))
            i += 2
        else:
            out.append(c)
            i += 1
    return "".join(out)


def parse_prints(raw: str) -> list:
    """Every stdout line that is a TLA+ string holding JSON -> python value."""
    res = []
    for line in raw.splitlines():
        m = _STR_LINE.match(line.strip())
        if not m:
            continue
        txt = _unescape(m.group(1))
        if not txt or txt[0] not in "{[":
            continue
        try:
            res.append(json.loads(txt))
        except json.JSONDecodeError:
            continue
    return res


def run_tlc(
    module: str,
    cfg: str | None = None,
    *,
    workers: int | str = 16,
    env: dict | None = None,
    timeout: int = 1200,
    simulate: str | None = None,
    depth: int | None = None,
    seed: int | None = None,
    coverage: bool = False,
    tag: str | None = None,
    deadlock: bool = False,
    heap: str = "4g",
    dfs_queue: bool = False,
    allow_violation: bool = False,
) -> TlcResult:
    """Run TLC on spec/<module>.tla with spec/<cfg>.cfg from the spec directory."""
    cfg = cfg or module
    tag = tag or f"{module}-{cfg}-{os.getpid()}-{time.time_ns() % 10**9}"
    meta = OUT / "tlc" / tag
    if meta.exists():
        shutil.rmtree(meta)
    meta.mkdir(parents=True)
    gc = "-XX:+UseSerialGC" if str(workers) == "1" else "-XX:+UseParallelGC"
    cmd = ["java", gc, f"-Xmx{heap}", "-Xss64m"]
    if str(workers) == "1":
        cmd.append("-XX:ActiveProcessorCount=1")
    if dfs_queue:
        cmd.append("-Dtlc2.tool.queue.IStateQueue=StateDeque")
    cmd += ["-cp", JAR, "tlc2.TLC", "-metadir", str(meta), "-noGenerateSpecTE",
            "-workers", str(workers), "-config", f"{cfg}.cfg"]
    if not deadlock:
        cmd.append("-deadlock")  # switch deadlock checking OFF
    if simulate is not None:
        cmd += ["-simulate", simulate]
    if depth is not None:
        cmd += ["-depth", str(depth)]
    if seed is not None:
        cmd += ["-seed", str(seed)]
    if coverage:
        cmd += ["-coverage", "1"]
    cmd.append(f"{module}.tla")
    e = dict(os.environ)
    e.pop("JAVA_TOOL_OPTIONS", None)
    if env:
        e.update({k: str(v) for k, v in env.items()})
    t0 = time.time()
    try:
        p = subprocess.run(cmd, cwd=SPEC, env=e, capture_output=True, text=True, timeout=timeout)
    except subprocess.TimeoutExpired as ex:
        shutil.rmtree(meta, ignore_errors=True)
        raise MachineryError(f"TLC timeout after {timeout}s on {module}/{cfg}") from ex
    wall = time.time() - t0
    raw = p.stdout + "\n" + p.stderr
    shutil.rmtree(meta, ignore_errors=True)
    r = TlcResult(ok=False, raw=raw, wall_s=wall)
    m = re.search(r"(\d+) states generated, (\d+) distinct states found", raw)
    if m:
        r.states, r.distinct = int(m.group(1)), int(m.group(2))
    r.prints = parse_prints(p.stdout)
    if coverage:
        for cm in re.finditer(r"<(\w+) line \d+, col \d+ to line \d+, col \d+ of module (\w+)>: (\d+):(\d+)", raw):
            r.coverage[cm.group(1)] = [int(cm.group(3)), int(cm.group(4))]
    vm = re.search(r"Error: (Invariant (\S+) is violated|Action property (\S+) is violated|"
                   r"Temporal properties were violated|Deadlock reached)", raw)
    if vm:
        r.violated = vm.group(2) or vm.group(3) or vm.group(1)
        if allow_violation:
            return r
        return r
    finished = ("Model checking completed. No error has been found" in raw
                or (simulate is not None and "Error:" not in raw and p.returncode == 0))
    if not finished:
        lines = [ln for ln in raw.splitlines() if not ln.lstrip().startswith(("|", "line ")) and not ln.startswith(("<", "Parsing", "Semantic", "Linting", "State ", "/\\", '"'))]
        errs = [i for i, ln in enumerate(lines) if ln.startswith("Error:")]
        start = errs[0] if errs else max(0, len(lines) - 40)
        tail = "\n".join(lines[start:start + 40])
        raise MachineryError(f"TLC did not complete on {module}/{cfg} (rc={p.returncode}):\n{tail}")
    r.ok = True
    return r


def _eval_error(raw: str) -> bool:
    """TLC stopped while EVALUATING a record (32-bit overflow, or a value of a shape the formula cannot compare, e.g. a
    list where the unchanged tree yields a string).  Only a result outside everything the unchanged tree produces can do
    that, so the record is isolated by bisection and rejected instead of reporting a machinery failure."""
    return "Overflow when computing" in raw or "Attempted to check equality" in raw or "Attempted to compare" in raw \
        or "Attempted to apply" in raw or "Attempted to select field" in raw or "Attempted to access" in raw


def _beyond_int(x) -> bool:
    if isinstance(x, bool):
        return False
    if isinstance(x, int):
        return abs(x) > 2147483647
    if isinstance(x, dict):
        return any(_beyond_int(v) for v in x.values())
    if isinstance(x, (list, tuple)):
        return any(_beyond_int(v) for v in x)
    return False


def validate_traces(module: str, cfg: str, records: list[dict], *, shards: int = 16,
                    tag: str = "trace", timeout: int = 1800, heap: str = "3g", env: dict | None = None) -> tuple[list[dict], int, float]:
    """Write records as ndjson shards, run the TLC trace validator on each shard (one JVM per
    shard, single worker), return (verdict lines, records consumed, wall seconds).

    The validator prints one JSON object per rejected record {"id":..,"failing":[..]} and a final
    {"done": n, "bad": k} per shard.  A shard whose `done` does not equal its length is a
    machinery failure."""
    if not records:
        return [], 0, 0.0
    # TLC integers are 32 bit: a record holding a larger projected value cannot be judged by the spec.  On charts of
    # the modelled size every projected value is far below that, so such a record is rejected outright.
    big = [r for r in records if _beyond_int(r)]
    if big:
        ids = {id(r) for r in big}
        rest = [r for r in records if id(r) not in ids]
        rej, cons, wall = validate_traces(module, cfg, rest, shards=shards, tag=tag, timeout=timeout, heap=heap, env=env)
        return rej + [{"id": r["id"], "failing": ["beyond_int_range"]} for r in big], cons + len(big), wall
    shards = max(1, min(shards, (len(records) + 19) // 20))
    tdir = OUT / "traces" / f"{tag}-{os.getpid()}"      # concurrent runs (other tier, seed runners) never share a directory
    if tdir.exists():
        shutil.rmtree(tdir)
    tdir.mkdir(parents=True)
    parts = [records[i::shards] for i in range(shards)]
    files = []
    for i, part in enumerate(parts):
        f = tdir / f"shard{i}.ndjson"
        with open(f, "w") as fh:
            for rec in part:
                fh.write(json.dumps(rec, separators=(",", ":")) + "\n")
        files.append(f)

    def one(i):
        try:
            return run_tlc(module, cfg, workers=1, env={"TRACE_FILE": str(files[i]), **(env or {})},
                           timeout=timeout, tag=f"{tag}-s{i}-{os.getpid()}", heap=heap)
        except MachineryError as e:
            if not _eval_error(str(e)):
                raise
            from types import SimpleNamespace
            return SimpleNamespace(ok=False, prints=[], raw=str(e))

    t0 = time.time()
    with ThreadPoolExecutor(max_workers=min(16, shards)) as ex:
        results = list(ex.map(one, range(shards)))
    rejects, consumed = [], 0
    for i, r in enumerate(results):
        done = [p for p in r.prints if isinstance(p, dict) and "done" in p]
        if (not r.ok or len(done) != 1) and _eval_error(r.raw):
            # an intermediate product left 32 bits while judging some record of this shard: isolate it by bisection
            # and reject it (same reasoning as above); the other records are judged normally
            if len(parts[i]) == 1:
                rejects.append({"id": parts[i][0]["id"], "failing": ["beyond_int_range" if "Overflow when computing" in r.raw else "shape_outside_spec_domain"]})
                consumed += 1
            else:
                h = len(parts[i]) // 2
                for k, half in enumerate((parts[i][:h], parts[i][h:])):
                    rj, cs, _ = validate_traces(module, cfg, half, shards=1, tag=f"{tag}-b{i}{k}", timeout=timeout, heap=heap, env=env)
                    rejects += rj
                    consumed += cs
            continue
        if not r.ok or len(done) != 1 or done[0]["done"] != len(parts[i]):
            raise MachineryError(f"trace validator {module} shard {i} incomplete: "
                                 + "\n".join(r.raw.splitlines()[-30:]))
        consumed += done[0]["done"]
        rej = [p for p in r.prints if isinstance(p, dict) and "failing" in p]
        if len(rej) != done[0]["bad"]:
            raise MachineryError(f"trace validator {module} shard {i}: reject lines != bad count")
        rejects += rej
    shutil.rmtree(tdir, ignore_errors=True)
    return rejects, consumed, time.time() - t0


def tlc_compute(module: str, items: list[dict], *, tag: str = "calc", shards: int = 8) -> dict:
    """Run a `*Calc` module over items (each with an "id"); returns {id: printed record}."""
    if not items:
        return {}
    tdir = OUT / "traces" / f"{tag}-{os.getpid()}"
    if tdir.exists():
        shutil.rmtree(tdir)
    tdir.mkdir(parents=True)
    shards = max(1, min(shards, (len(items) + 49) // 50))
    parts = [items[i::shards] for i in range(shards)]
    files = []
    for i, part in enumerate(parts):
        f = tdir / f"in{i}.ndjson"
        f.write_text("".join(json.dumps(x, separators=(",", ":")) + "\n" for x in part))
        files.append(f)

    def one(i):
        return run_tlc(module, module, workers=1, env={"TRACE_FILE": str(files[i])}, tag=f"{tag}-{i}-{os.getpid()}")
    with ThreadPoolExecutor(max_workers=shards) as ex:
        results = list(ex.map(one, range(shards)))
    out = {}
    for i, r in enumerate(results):
        done = [p for p in r.prints if isinstance(p, dict) and "done" in p]
        if not r.ok or len(done) != 1 or done[0]["done"] != len(parts[i]):
            raise MachineryError(f"{module} shard {i} incomplete: " + "\n".join(r.raw.splitlines()[-20:]))
        for p in r.prints:
            if isinstance(p, dict) and "id" in p:
                out[p["id"]] = p
    return out
