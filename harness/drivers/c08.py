"""C08 (and the converter part of C14/C15) driver: build a source chart, put it through a
history, convert with each of the 16 converters (+ convert_merge), project source and results."""
from __future__ import annotations

import importlib
import math

from harness.charts import map_class, mapset_class, new_map
from harness.common import exc_name
from harness.project import declared_fields, sval

# name: (source game, target game, source is a set, result kind, has move_right_by)
CONVERTERS = {
    "OsuToQua": ("osu", "qua", False, "one", False), "OsuToSM": ("osu", "sm", False, "set", False),
    "OsuToBMS": ("osu", "bms", False, "one", True),
    "QuaToOsu": ("qua", "osu", False, "one", False), "QuaToSM": ("qua", "sm", False, "set", False),
    "QuaToBMS": ("qua", "bms", False, "one", True),
    "SMToOsu": ("sm", "osu", True, "list", False), "SMToQua": ("sm", "qua", True, "list", False),
    "SMToBMS": ("sm", "bms", True, "list", False),
    "BMSToOsu": ("bms", "osu", False, "one", False), "BMSToQua": ("bms", "qua", False, "one", False),
    "BMSToSM": ("bms", "sm", False, "set", False),
    "O2JToOsu": ("o2j", "osu", True, "list", False), "O2JToQua": ("o2j", "qua", True, "list", False),
    "O2JToSM": ("o2j", "sm", True, "setlist", False), "O2JToBMS": ("o2j", "bms", True, "list", True),
    "O2JToSM.merge": ("o2j", "sm", True, "set", False),
}
NAN = -999999


def _milli(v):
    f = float(v)
    return NAN if not math.isfinite(f) else int(round(f * 1000))


def proj_chart(m):
    """hits/holds/bpms/svs as tuples x1000 plus field bookkeeping of every list."""
    out = {"hits": [], "holds": [], "bpms": [], "svs": [], "fields": [], "nan": False}

    def rows(lst, cols):
        df = lst.df
        res = []
        for i in range(len(df)):
            r = df.iloc[i]
            t = []
            for c in cols:
                if c not in df.columns:
                    t.append(NAN)
                else:
                    t.append(_milli(r[c]))
            res.append(t)
        return res
    out["hits"] = rows(m.hits, ["offset", "column"])
    out["holds"] = rows(m.holds, ["offset", "column", "length"])
    out["bpms"] = rows(m.bpms, ["offset", "bpm"])
    if "svs" in m.objs:
        out["svs"] = rows(m.objs["svs"], ["offset", "multiplier"])
    for name, lst in m.objs.items():
        decl = declared_fields(type(lst))
        cols = [str(c) for c in lst.df.columns]
        out["fields"].append({"name": name, "cols": cols, "declared": decl})
        if len(lst.df) and bool(lst.df[[c for c in cols if c in decl]].isna().any().any()):
            out["nan"] = True
    for k in ("hits", "holds", "bpms", "svs"):
        if any(NAN in t for t in out[k]):
            out["nan"] = True
    return out


def _s(v):
    if isinstance(v, bytes):
        try:
            return v.decode("shift_jis")
        except Exception:
            return v.decode("latin-1")
    return sval(v)


def names_of(game, chart, owner):
    """title / artist / creator / difficulty name as the game stores them ("" where it has no such field)."""
    if game == "osu":
        return {"title": _s(chart.title), "artist": _s(chart.artist), "creator": _s(chart.creator), "diff": _s(chart.version)}
    if game == "qua":
        return {"title": _s(chart.title), "artist": _s(chart.artist), "creator": _s(chart.creator),
                "diff": _s(chart.difficulty_name)}
    if game == "bms":
        return {"title": _s(chart.title), "artist": _s(chart.artist), "creator": "", "diff": _s(chart.version)}
    if game == "sm":
        return {"title": _s(owner.title), "artist": _s(owner.artist), "creator": _s(owner.credit), "diff": ""}
    if game == "o2j":
        return {"title": _s(owner.title), "artist": _s(owner.artist), "creator": _s(owner.creator), "diff": ""}
    return {"title": "", "artist": "", "creator": "", "diff": ""}


def src_content(game, n, keys=4):
    # the highest column occurs on every other row, so that dropping rows from either end
    # (filter, reverse sort + filter) keeps the key count inferable
    nh = n + 4
    hits = [{"offset": 1000.0 * i + 125.0, "column": keys - 1 if i % 2 == 0 else (i // 2) % (keys - 1)} for i in range(nh)]
    holds = [{"offset": 1000.0 * i + 500.0, "column": i % keys, "length": 250.0 + 125.0 * i} for i in range(n)]
    bpms = [{"offset": 2000.0 * i, "bpm": 120.0 + 30.0 * i, "metronome": 4} for i in range(max(n, 1))]
    c = {"hits": hits, "holds": holds, "bpms": bpms}
    if game in ("osu", "qua"):
        c["svs"] = [{"offset": 1500.0 * i + 250.0, "multiplier": 0.5 + 0.25 * i} for i in range(n)]
    return c


def build_source(game, n, nmaps=2, variant=0, odd_type=False):
    if game == "o2j":
        nmaps = 3

    def one(k):
        c = src_content(game, n)
        # every chart of a set (and every variant) has its own content
        for rows in c.values():
            for row in rows:
                row["offset"] += 10.0 * k + 3.0 * variant
                if "bpm" in row:
                    row["bpm"] += 5.0 * k + variant
        m = new_map(game, c)
        if game == "osu":
            m.title, m.artist, m.creator, m.version = "Tit:le あ", "Art", "Cre", f"Diff{k}"
            m.circle_size = 4
        elif game == "qua":
            from reamber.quaver.QuaMapMeta import QuaMapMode
            m.title, m.artist, m.creator, m.difficulty_name = "Title", "Art", "Cre", f"Diff{k}"
            m.mode = QuaMapMode.KEYS_4
        elif game == "bms":
            m.title, m.artist, m.version = b"Title", b"Art", f"Diff{k}".encode()
        elif game == "sm":
            # the second chart of a set has a type the library knows no key count for
            # (not towards Quaver, whose mode is derived from the chart type: such a chart has no Quaver counterpart)
            m.chart_type = "dance-single" if k != 1 or not odd_type else "pump-single"
            m.difficulty = "Hard"
            m.difficulty_val = 7 + k
        return m
    if game in ("sm", "o2j"):
        ms_ = mapset_class(game)(maps=[one(k) for k in range(nmaps)])
        ms_.title, ms_.artist = "Title", "Art"
        if game == "sm":
            ms_.credit = "Cre"
            ms_.offset = 0.0
        else:
            ms_.creator = "Cre"
            ms_.level = [3, 7, 12, 0][:nmaps + 1]
        return ms_
    return one(0)


def charts_of(obj):
    return list(obj.maps) if hasattr(obj, "maps") else [obj]


def apply_history(obj, hist, game):
    """the source-shaping operations of ConvertMC on every list of every chart."""
    for op in hist:
        if op == "convert":
            break
        if op == "rate":
            obj = obj.rate(2.0)
            continue
        if op == "deepcopy":
            obj = obj.deepcopy()
            continue
        for m in charts_of(obj):
            if op == "stack_write":
                st = m.stack()
                st.offset += 7.0
                continue
            for name in list(m.objs):
                lst = m.objs[name]
                if op == "filter" and len(lst) >= 1:
                    m.objs[name] = lst[1:]
                elif op == "filter_mid" and len(lst) >= 2:
                    import numpy as np
                    m.objs[name] = lst[np.array([i != 1 for i in range(len(lst))])]
                elif op == "sort_rev":
                    m.objs[name] = lst.sorted(reverse=True)
                elif op == "append" and name in ("hits", "holds", "bpms", "svs"):
                    cls = type(lst)
                    kw = {"offset": 5.0}
                    props = cls._item_class()._props
                    for f, (_, d) in props.items():
                        if f not in kw:
                            kw[f] = list(d) if isinstance(d, list) else d
                    if "bpm" in props:
                        kw["bpm"] = 99.0
                    if "multiplier" in props:
                        kw["multiplier"] = 2.0
                    if "sample" in props:
                        kw["sample"] = b""
                    m.objs[name] = lst.append(cls._item_class()(**kw))
    return obj


def call_converter(name, obj, shift):
    base = name.split(".")[0]
    mod = importlib.import_module(f"reamber.algorithms.convert.{base}")
    cls = getattr(mod, base)
    fn = cls.convert_merge if name.endswith(".merge") else cls.convert
    if CONVERTERS[name][4]:
        return fn(obj, move_right_by=shift)
    return fn(obj)


def exec_conv(scn):
    name = scn["conv"]
    sg, tg, is_set, kind, has_shift = CONVERTERS[name]
    shift = scn.get("shift", 0) if has_shift else 0
    rec = {"id": f"{scn['id']}/{name}", "op": "convert", "conv": name, "cls": f"{name}:{'+'.join(scn['hist'][:-1]) or 'fresh'}",
           "shift": shift * 1000, "carry_sv": sg in ("osu", "qua") and tg in ("osu", "qua"), "exc": "",
           "src": [], "src_after": [], "outs": [], "outs_after": [], "names_src": [], "names_out": [], "src_game": sg, "tgt_game": tg,
           "merge": name.endswith(".merge")}
    try:
        obj = build_source(sg, scn["n"], odd_type=(tg != "qua"))
        obj = apply_history(obj, scn["hist"], sg)
        rec["src"] = [proj_chart(m) for m in charts_of(obj)]
        rec["names_src"] = [names_of(sg, m, obj) for m in charts_of(obj)]
        res = call_converter(name, obj, shift)
        if kind == "one":
            outs = [(res, res)]
        elif kind == "list":
            outs = [(m, m) for m in res]
        elif kind == "set":
            outs = [(m, res) for m in res.maps]
        else:  # list of sets
            outs = [(m, s) for s in res for m in s.maps]
        rec["outs"] = [proj_chart(m) for m, _ in outs]
        rec["names_out"] = [names_of(tg, m, o) for m, o in outs]
        rec["src_after"] = [proj_chart(m) for m in charts_of(obj)]
        # history after the call: a second, different conversion must not reach into the first result
        other = apply_history(build_source(sg, scn["n"], variant=1, odd_type=(tg != "qua")), scn["hist"], sg)
        call_converter(name, other, shift)
        rec["outs_after"] = [proj_chart(m) for m, _ in outs]
    except ValueError as e:
        if "isn't supported" in str(e) and rec["src"] and not rec["outs"]:
            # the converters that infer the key count from the highest occupied column refuse counts the target
            # game has no mode for (e.g. after a filter removed the top lane's only object): judged as a refusal
            rec["op"] = "refusal"
        else:
            rec["exc"] = exc_name(e)
    except Exception as e:
        rec["exc"] = exc_name(e)
    return [rec]
