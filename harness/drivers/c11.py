"""C11 driver: reseat tempo lists through the three public entry points and project the result."""
from __future__ import annotations

from fractions import Fraction

from harness.common import exc_name, ms, ticks, rng


def _bpm(bl_ticks):
    return 60000.0 / (bl_ticks / 1000.0)


def _bl_ticks(bpm):
    return ticks(60000.0 / float(bpm))


def _mk(scn):
    from reamber.algorithms.timing.utils.BpmChangeSnap import BpmChangeSnap
    from reamber.algorithms.timing.utils.snap import Snap
    G = scn["G"]
    return [BpmChangeSnap(_bpm(c["bl"]), c["met"], Snap(c["m"], Fraction(c["b"], G), c["met"])) for c in scn["tl"]]


def _proj_snaps(bcs):
    out = []
    for b in bcs:
        mm = float(b.snap.measure)
        f = Fraction(b.snap.beat)
        if not mm.is_integer():
            # a fractional measure is "not on a measure line": encode as beat != 0
            out.append({"m": int(mm // 1), "bn": 1, "bd": 1, "bl": _bl_ticks(b.bpm), "met": int(b.metronome)})
            continue
        met = Fraction(b.metronome)
        if met.denominator != 1:
            raise TypeError("fractional metronome")
        out.append({"m": int(mm), "bn": f.numerator, "bd": f.denominator, "bl": _bl_ticks(b.bpm), "met": int(met)})
    return out


def exec_c11(scn) -> list[dict]:
    from reamber.algorithms.timing.TimingMap import TimingMap
    from reamber.algorithms.timing.utils.reseat_bpm_changes_snap import reseat_bpm_changes_snap
    recs = []
    t0 = scn.get("t0", 0)
    vias = list(scn.get("vias", ["fn", "tm", "tm.reseat", "fn_twice"]))
    dup = any((a["m"], a["b"]) == (b["m"], b["b"]) for a, b in zip(scn["tl"], scn["tl"][1:]))
    if "tm.reseat" in vias:
        if not dup:      # (among changes at one time the list order says which is in force: shuffling would change the input)
            vias.append("tm.unsorted_reseat")
        if all(c["b"] == 0 and c["bl"] % (2 * scn["G"]) == 0 for c in scn["tl"]):
            vias.append("tm.edit_reseat")
    for via in vias:
        r = {"id": f"{scn['id']}/{via}", "op": "reseat", "via": via, "cls": scn.get("cls", "grid2"), "G": scn["G"],
             "tl": scn["tl"], "out": [], "ot": [], "exc": ""}
        try:
            if via == "tm.unsorted_reseat":
                # history: the map's change list is not in time order (raw constructor / a point added later)
                import copy
                tm0 = TimingMap.from_bpm_changes_snap(ms(t0), _mk(scn), reseat=False)
                pts = [copy.copy(b) for b in tm0.bpm_changes_offset]
                tm = TimingMap(bpm_changes_offset=pts[1:] + pts[:1] if len(pts) > 2 else list(reversed(pts))).reseat()
                r["via"] = "tm.reseat"
            elif via == "tm.edit_reseat":
                # history: a seated map is queried, then every point is re-tuned in place to twice its bpm (each old
                # measure becomes two, so the map stays seated), then reseated: judged as the reseating of that new list
                tm = TimingMap.from_bpm_changes_snap(ms(t0), _mk(scn), reseat=False)
                tm.bpm_changes_snap()
                tm.reseat()
                for b in tm.bpm_changes_offset:
                    b.bpm = b.bpm * 2
                r["tl"] = [dict(c, m=2 * c["m"], bl=c["bl"] // 2) for c in scn["tl"]]
                tm = tm.reseat()
                r["via"] = "tm.reseat"
            if via in ("tm.unsorted_reseat", "tm.edit_reseat"):
                r["cls"] += "." + via.split(".")[1]
                r["out"] = _proj_snaps(tm.bpm_changes_snap())
                r["ot"] = [ticks(b.offset) - t0 for b in tm.bpm_changes_offset]
                for o, b in zip(r["out"], tm.bpm_changes_offset):
                    o["bl"] = _bl_ticks(b.bpm)
                recs.append(r)
                continue
            if via == "fn":
                r["out"] = _proj_snaps(reseat_bpm_changes_snap(_mk(scn)))
            elif via == "fn_twice":
                # history: the same list object is reseated twice (the first call must not have touched it)
                lst = _mk(scn)
                reseat_bpm_changes_snap(lst)
                r["out"] = _proj_snaps(reseat_bpm_changes_snap(lst))
                r["via"] = "fn"
            else:
                if via == "tm":
                    tm = TimingMap.from_bpm_changes_snap(ms(t0), _mk(scn), reseat=True)
                else:
                    tm = TimingMap.from_bpm_changes_snap(ms(t0), _mk(scn), reseat=False).reseat()
                r["out"] = _proj_snaps(tm.bpm_changes_snap())
                r["ot"] = [ticks(b.offset) - t0 for b in tm.bpm_changes_offset]
                for o, b in zip(r["out"], tm.bpm_changes_offset):
                    o["bl"] = _bl_ticks(b.bpm)
        except Exception as e:
            r["out"], r["ot"], r["exc"] = [], [], exc_name(e)
        recs.append(r)
    return recs


def random_scenarios(n, tier):
    r = rng("c11-random")
    out = []
    for i in range(n):
        G = r.choice([2, 3, 4, 5, 7, 8, 12, 16, 48, 96])
        mets = [r.randint(1, 8)]
        seated = r.random() < 0.25
        unit = G * 840
        nchg = r.randint(2, 6)
        tl = []
        m = b = 0
        for k in range(nchg):
            met = r.randint(1, 8) if seated else mets[0]
            bl = unit * r.randint(max(1, 100000 // unit + 1), max(2, 1500000 // unit))
            if k > 0:
                pm = tl[-1]["met"]
                if seated:
                    m, b = m + r.randint(1, 3), 0
                else:
                    # (now and then a change overrides the one before it on the spot)
                    adv = 0 if (i % 4 == 1 and r.random() < 0.4) else r.randint(1, 2 * pm * G)
                    tot = b + adv
                    m, b = m + tot // (pm * G), tot % (pm * G)
            tl.append({"m": m, "b": b, "bl": bl, "met": met})
        out.append({"id": f"rnd{i}", "cls": "random", "G": G, "tl": tl,
                    "t0": r.choice([0, -70000, 1250000])})
    return out


def grid1000_scenarios(n):
    """1/1000-beat grid: reaches the two "extend" branches (remainder <= 0.001 measure/beat)."""
    r = rng("c11-g1000")
    out = []
    G = 1000
    for i in range(n):
        met = r.choice([3, 4])
        nchg = r.randint(2, 4)
        tl, m, b = [], 0, 0
        for k in range(nchg):
            bl = 12000 * r.randint(10, 100)
            if k > 0:
                adv = r.choice([r.randint(1, 2 * met * G), met * G * r.randint(1, 2) + r.randint(1, 4),
                                G * r.randint(1, 7) + r.randint(1, 3)])
                tot = b + adv
                m, b = m + tot // (met * G), tot % (met * G)
            tl.append({"m": m, "b": b, "bl": bl, "met": met})
        out.append({"id": f"g1000_{i}", "cls": "grid1000", "G": G, "tl": tl, "t0": 0, "vias": ["fn", "fn_twice", "tm"]})
    return out
