"""C15 driver: every operation on a chart and on the same chart with permuted rows."""
from __future__ import annotations

import math
from fractions import Fraction

from harness import bms_text, osu_text, qua_text, sm_text
from harness.charts import new_map, mapset_class
from harness.common import exc_name, rng
from harness.drivers import c08
from harness.project import sval

LISTS = ("hits", "holds", "bpms", "svs")


def base_content(game, sizes, keys=4):
    nh, nl, nb, ns = sizes
    hits = [{"offset": 250.0 + 500.0 * i, "column": (i * 3 + 3) % keys} for i in range(nh)]
    hits[0]["column"] = keys - 1
    hits[-1]["offset"] = 6000.0        # the last object, well after the last tempo point
    holds = [{"offset": 125.0 + 1000.0 * i, "column": i % (keys - 1), "length": 250.0} for i in range(nl)]
    # distinct tempo values with distinct active times: the dominant one is unique
    bpms = [{"offset": [0.0, 2000.0, 5000.0][i], "bpm": [120.0, 240.0, 90.0][i], "metronome": 4} for i in range(nb)]
    c = {"hits": hits, "holds": holds, "bpms": bpms}
    if game in ("osu", "qua"):
        c["svs"] = [{"offset": 500.0 + 1500.0 * i, "multiplier": [0.5, 2.0, 1.5][i]} for i in range(ns)]
    if game == "osu":
        for i, h in enumerate(hits):
            h["hitsound_set"], h["volume"] = [2, 4, 8][i % 3], 10 * (i + 1)
        for i, h in enumerate(holds):
            h["hitsound_file"], h["volume"] = f"f{i}.wav", 30
    if game == "sm":
        # stops of different lengths (their list follows the permutation of the fourth list)
        c["stops"] = [{"offset": 1000.0 + 1500.0 * i, "length": [250.0, 125.0, 500.0][i]} for i in range(ns)]
    if game == "bms":
        for i, h in enumerate(hits + holds):
            h["sample"] = b"a.wav" if i % 3 == 0 else f"s{i}.wav".encode()      # key sounds differ from note to note
    return c


def build(game, sizes, perm, form, apply_perm):
    m = new_map(game, base_content(game, sizes))
    if game == "osu":
        m.circle_size = 4
        m.title = m.artist = m.creator = m.version = "x"
    if game == "qua":
        from reamber.quaver.QuaMapMeta import QuaMapMode
        m.mode = QuaMapMode.KEYS_4
    if game == "bms":
        m.title, m.artist, m.version, m.ln_end_channel, m.samples = b"t", b"a", b"1", b"ZZ", {b"01": b"a.wav"}
    if game == "sm":
        m.chart_type = "dance-single"
    if apply_perm:
        for k, name in enumerate(LISTS):
            if name == "svs" and game == "sm":
                name = "stops"
            if name not in m.objs:
                continue
            lst = m.objs[name]
            p = perm[k]
            if len(lst) != len(p):
                continue
            df = lst.df.iloc[[x - 1 for x in p]]
            if form == "fresh":
                df = df.reset_index(drop=True)
            m.objs[name] = type(lst)(df)
    if game in ("sm", "o2j"):
        ms = mapset_class(game)(maps=[m] + ([new_map(game, base_content(game, sizes)) for _ in range(2)] if game == "o2j" else []))
        ms.title, ms.artist = "t", "a"
        if game == "sm":
            ms.offset, ms.credit = 0.0, "c"
        else:
            ms.creator, ms.level = "c", [1, 2, 3, 0]
        return ms
    return m


def _m(x):
    f = float(x)
    return "nan" if not math.isfinite(f) else int(round(f * 1000))


def proj_chart(m):
    out = {}
    for name, lst in m.objs.items():
        cols = [c for c in lst.df.columns]
        out[name] = [[sval(c) + "=" + (str(_m(v)) if isinstance(v, (int, float)) and not isinstance(v, bool) else sval(v))
                      for c, v in zip(cols, row)] for row in lst.df.itertuples(index=False)]
        out[name] = [sorted(r) for r in out[name]]
    return out


def charts_of(o):
    return list(o.maps) if hasattr(o, "maps") else [o]


def _frac(i, d):
    f = Fraction(i, d)
    return f"{f.numerator}/{f.denominator}"


def proj_result(op, game, res):
    """result of an operation -> {name: rows}"""
    if op == "write":
        if game == "osu":
            t = osu_text.lex(res)
            return {"objs": t["objs"], "tps": t["tps"], "samples": t["samples"], "meta": t["meta"]}
        if game == "qua":
            t = qua_text.tokens(res)
            return {"objs": t["objs"], "tps": t["tps"], "svs": t["svs"]}
        if game == "sm":
            t = sm_text.lex(res)
            # the #BPMS and #STOPS pairs are compared as bags
            out = {"bpms": t["bpms"], "stops": [[x["p"], x["len"]] for x in t["stops"]], "hdr": [h for h in t["hdr"] if h["tag"] not in ("BPMS", "STOPS")]}
            for i, ch in enumerate(t["charts"]):
                out[f"cells{i}"] = [[c["m"], _frac(c["r"] - 1, c["n"]), c["c"], c["s"]] for c in ch["cells"]]
            return out
        t = bms_text.lex(res)
        cells = []
        for ln in t["lines"]:
            for o in ln["objs"]:
                cells.append([ln["m"], ln["ch"], _frac(o["i"], ln["d"]), o["id"] if ln["ch"] not in ("08", "03") else str(o["val"])])
        return {"cells": cells, # #BPM is overridden by the tempo event at measure 0 beat 0 the writer always emits: the timeline is in `cells`
                "hdr": [h for h in t["hdr"] if not h["key"].startswith("BPM")],
                "exbpm_values": sorted(e["bl"] for e in t["exbpm"])}
    if op in ("rate", "full_ln") or op.startswith("convert."):
        objs = res if isinstance(res, list) else [res]
        out = {}
        k = 0
        for o in objs:
            if hasattr(o, "maps") and hasattr(o, "sample_start"):
                # set-level timing of a StepMania result: beat 0 and the preview window
                out[f"set{k}"] = [[f"offset={_m(o.offset)}", f"sample_start={_m(o.sample_start)}", f"sample_length={_m(o.sample_length)}"]]
            for ch in charts_of(o):
                for name, rows in proj_chart(ch).items():
                    out[f"{k}.{name}"] = rows
                k += 1
        return out
    if op == "hitsound_copy":
        from harness.drivers.c18 import notes_of, events_of
        notes = notes_of(res)
        return {"notes": [[n["t"], n["c"], n["n"], n["k"]] for n in notes],
                "sounds": [[n["t"], n["hs"], n["vol"], n["file"]] for n in notes if n["hs"] or n["file"]],
                "events": [[e["t"], e["file"], e["vol"]] for e in events_of(res)]}
    if op == "dominant_bpm":
        return {"value": [[_m(res)]]}
    if op.startswith("scroll_speed"):
        return {"series": [[_m(i), _m(v)] for i, v in zip(res.index.tolist(), res.tolist())]}
    if op.startswith("sv_normalize"):
        return {"svs": [[_m(r.offset), _m(r.multiplier)] for r in res.df.itertuples()]}
    raise ValueError(op)


def ops_for(game):
    from reamber.algorithms.generate.full_ln import full_ln
    from reamber.algorithms.utils.dominant_bpm import dominant_bpm
    from reamber.algorithms.analysis.scroll_speed import scroll_speed
    ch = lambda o: o.maps[0] if hasattr(o, "maps") else o
    ops = [("rate", lambda o: o.rate(1.5)), ("full_ln", lambda o: full_ln(ch(o), gap=100, ln_as_hit_thres=50)),
           ("dominant_bpm", lambda o: dominant_bpm(ch(o))), ("scroll_speed", lambda o: scroll_speed(ch(o))),
           ("scroll_speed_override", lambda o: scroll_speed(ch(o), override_bpm=100))]
    if game in ("osu", "qua"):
        from reamber.algorithms.generate.sv_normalize import sv_normalize
        ops += [("sv_normalize", lambda o: sv_normalize(o)), ("sv_normalize_override", lambda o: sv_normalize(o, override_bpm=150))]
    if game in ("osu", "qua", "sm"):
        ops.append(("write", lambda o: o.write()))
    if game == "bms":
        from reamber.bms.BMSChannel import BMSChannel
        ops.append(("write", lambda o: o.write(BMSChannel.BME)))
    for name, (sg, tg, is_set, kind, has_shift) in c08.CONVERTERS.items():
        if sg == game:
            ops.append((f"convert.{name}", lambda o, name=name: c08.call_converter(name, o, 0)))
    return ops


def exec_perm(scn):
    game = scn["game"]
    out = []
    sizes, perm, form = scn["sizes"], scn["perm"], scn["form"]
    for op, fn in ops_for(game):
        rec = {"id": f"{scn['id']}/{game}/{op}", "op": op, "cls": f"{game}.{op}.{form}", "exc": "", "base": {}, "perm": {}}
        try:
            a = fn(build(game, sizes, perm, form, False))
            b = fn(build(game, sizes, perm, form, True))
            rec["base"], rec["perm"] = proj_result(op, game, a), proj_result(op, game, b)
        except Exception as e:
            rec["exc"] = exc_name(e)
        out.append(rec)
    if game == "osu":
        from reamber.algorithms.osu.hitsound_copy import hitsound_copy
        for role in ("src", "tgt", "both"):
            rec = {"id": f"{scn['id']}/osu/hitsound_copy.{role}", "op": "hitsound_copy", "cls": f"osu.hitsound_copy.{role}.{form}",
                   "exc": "", "base": {}, "perm": {}}
            try:
                tgt_sizes = [sizes[0], sizes[1], 1, 0]
                a = hitsound_copy(build("osu", sizes, perm, form, False), _tgt(tgt_sizes, perm, form, False))
                b = hitsound_copy(build("osu", sizes, perm, form, role in ("src", "both")), _tgt(tgt_sizes, perm, form, role in ("tgt", "both")))
                rec["base"], rec["perm"] = proj_result("hitsound_copy", "osu", a), proj_result("hitsound_copy", "osu", b)
            except Exception as e:
                rec["exc"] = exc_name(e)
            out.append(rec)
    return out


def _tgt(sizes, perm, form, apply_perm):
    """a target chart with notes at the source's times (other columns), silent"""
    m = build("osu", sizes, perm, form, apply_perm)
    m.hits.hitsound_set = 0
    m.hits.volume = 0
    m.holds.hitsound_file = ""
    m.holds.volume = 0
    m.hits.column = (m.hits.column + 1) % 4
    return m
