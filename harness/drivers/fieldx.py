"""EXTENSION driver (beyond the listed properties): PlayField geometry, one record per real rendering."""
from __future__ import annotations

from harness.common import exc_name


def exec_field(scn):
    from harness.charts import new_map
    notes, c = scn["notes"], scn["cfg"]
    rid = "pf/" + ".".join(f"{n['t']}:{n['c']}:{n['n']}" for n in notes) + "/" + "-".join(str(c[k]) for k in sorted(c))
    rec = {"id": rid, "op": "render", "cls": "ext.playfield." + ("hits" if all(n["n"] == 0 for n in notes) else "holds"), "ext": True,
           "notes": notes, "cfg": c, "exc": "", "w": 0, "h": 0, "px": []}
    try:
        from reamber.algorithms.playField import PlayField
        from reamber.algorithms.playField.parts import PFDrawNotes
        t0 = min(n["t"] for n in notes)
        m = new_map("osu", {"hits": [{"offset": float(n["t"]), "column": n["c"]} for n in notes if n["n"] == 0],
                            "holds": [{"offset": float(n["t"]), "column": n["c"], "length": float(n["n"])} for n in notes if n["n"] > 0],
                            # (the canvas spans every stacked list: the tempo point sits on the first note)
                            "bpms": [{"offset": float(t0), "bpm": 120.0, "metronome": 4}]})
        pf = PlayField(m, duration_per_px=c["dpp"], note_width=c["nw"], hit_height=c["hh"], hold_height=c["lh"],
                       column_line_width=c["clw"], start_lead=float(c["sl"]), end_lead=float(c["el"]), padding=c["pad"]) + PFDrawNotes()
        img = pf.export().convert("RGB")
        rec["w"], rec["h"] = img.size
        data = img.load()
        rec["px"] = [[x, y] for y in range(img.size[1]) for x in range(img.size[0]) if data[x, y] != (0, 0, 0)]
    except Exception as e:
        rec["exc"] = exc_name(e).split(":")[0]
        return [rec]
    out = [rec]
    # the folded export of the same image: stages of `mx` rows side by side, separator colour #525252
    for mx, line in ((7, 3), (rec["h"], 2)):
        if mx <= 0:
            continue
        r2 = {"id": rid + f"/fold{mx}.{line}", "op": "fold", "cls": f"ext.playfield.fold.clw{c['clw']}", "ext": True, "exc": "", "w": rec["w"], "h": rec["h"],
              "px": rec["px"], "mx": mx, "line": line, "fw": 0, "fh": 0, "fpx": []}
        try:
            f = pf.export_fold(max_height=mx, stage_line_width=line).convert("RGB")
            r2["fw"], r2["fh"] = f.size
            d2 = f.load()
            r2["fpx"] = [[x, y] for y in range(f.size[1]) for x in range(f.size[0]) if d2[x, y] not in ((0, 0, 0), (0x52, 0x52, 0x52))]
        except Exception as e:
            r2["exc"] = exc_name(e).split(":")[0]
        out.append(r2)
    out.extend(exec_lines(scn, rid))
    out.extend(exec_seps(scn, rid))
    return out


BL = 20            # beat length in ms of the single tempo point (3000 bpm), so that the model's small times span several beats
DIVS = (1, 2, 4)


def exec_lines(scn, rid):
    """PlayField + PFDrawBeatLines alone on the same chart: every non-background pixel with the division its colour stands for."""
    from harness.charts import new_map
    notes, c = scn["notes"], scn["cfg"]
    rec = {"id": rid + "/lines", "op": "lines", "cls": "ext.playfield.lines", "ext": True, "notes": notes, "cfg": c, "exc": "",
           "bl": BL, "divs": list(DIVS), "w": 0, "h": 0, "lpx": []}
    try:
        from reamber.algorithms.playField import PlayField
        from reamber.algorithms.playField.parts import PFDrawBeatLines
        from reamber.base.RAConst import RAConst
        t0 = min(n["t"] for n in notes)
        m = new_map("osu", {"hits": [{"offset": float(n["t"]), "column": n["c"]} for n in notes if n["n"] == 0],
                            "holds": [{"offset": float(n["t"]), "column": n["c"], "length": float(n["n"])} for n in notes if n["n"] > 0],
                            "bpms": [{"offset": float(t0), "bpm": 60000.0 / BL, "metronome": 4}]})
        pf = PlayField(m, duration_per_px=c["dpp"], note_width=c["nw"], hit_height=c["hh"], hold_height=c["lh"],
                       column_line_width=c["clw"], start_lead=float(c["sl"]), end_lead=float(c["el"]), padding=c["pad"]) \
            + PFDrawBeatLines(divisions=list(DIVS))
        img = pf.export().convert("RGB")
        rec["w"], rec["h"] = img.size
        col = {tuple(int(v[i:i + 2], 16) for i in (1, 3, 5)): d for d, v in RAConst.DIVISION_COLORS.items()}
        data = img.load()
        rec["lpx"] = [[x, y, col.get(data[x, y], 0)] for y in range(img.size[1]) for x in range(img.size[0]) if data[x, y] != (0, 0, 0)]
    except Exception as e:
        rec["exc"] = exc_name(e).split(":")[0]
    return [rec]


def exec_seps(scn, rid):
    """PlayField + PFDrawColumnLines alone on the same chart: the non-background pixels."""
    from harness.charts import new_map
    notes, c = scn["notes"], scn["cfg"]
    rec = {"id": rid + "/seps", "op": "seps", "cls": f"ext.playfield.seps.clw{min(c['clw'], 2)}", "ext": True, "notes": notes, "cfg": c,
           "exc": "", "w": 0, "h": 0, "px": []}
    try:
        from reamber.algorithms.playField import PlayField
        from reamber.algorithms.playField.parts import PFDrawColumnLines
        t0 = min(n["t"] for n in notes)
        m = new_map("osu", {"hits": [{"offset": float(n["t"]), "column": n["c"]} for n in notes if n["n"] == 0],
                            "holds": [{"offset": float(n["t"]), "column": n["c"], "length": float(n["n"])} for n in notes if n["n"] > 0],
                            "bpms": [{"offset": float(t0), "bpm": 60000.0 / BL, "metronome": 4}]})
        pf = PlayField(m, duration_per_px=c["dpp"], note_width=c["nw"], hit_height=c["hh"], hold_height=c["lh"],
                       column_line_width=c["clw"], start_lead=float(c["sl"]), end_lead=float(c["el"]), padding=c["pad"]) \
            + PFDrawColumnLines()
        img = pf.export().convert("RGB")
        rec["w"], rec["h"] = img.size
        data = img.load()
        rec["px"] = [[x, y] for y in range(img.size[1]) for x in range(img.size[0]) if data[x, y] != (0, 0, 0)]
    except Exception as e:
        rec["exc"] = exc_name(e).split(":")[0]
    return [rec]
