"""EXTENSION driver (beyond the listed properties): Snap arithmetic and find_lcm, one record per real call."""
from __future__ import annotations

from fractions import Fraction

from harness.common import exc_name

G = 2


def _snap(m, b, met):
    from reamber.algorithms.timing.utils.snap import Snap
    return Snap(m, Fraction(b, G), met)


def _pos(s):
    b = Fraction(s.beat) * G
    m = Fraction(s.measure)
    if b.denominator != 1 or m.denominator != 1:
        raise ValueError(f"not on the granule grid: {s!r}")
    return {"m": int(m), "b": int(b)}


def exec_norm(scn):
    rec = {"id": f"snap/norm/{scn['m']}/{scn['b']}/{scn['met']}", "op": "norm", "cls": "ext.snap.norm" + (".negative_measure" if scn["m"] < 0 else ""),
           "ext": True, "m": scn["m"], "b": scn["b"], "met": scn["met"], "exc": "", "out": {"m": 0, "b": 0}}
    try:
        rec["out"] = _pos(_snap(scn["m"], scn["b"], scn["met"]))
    except Exception as e:
        rec["exc"] = exc_name(e).split(":")[0]
    out = [rec]
    # binary operations on the positions the constructor accepts (measure >= 0): x op y for a fixed partner set
    if scn["m"] >= 0 and not rec["exc"]:
        x = {"m": scn["m"], "b": scn["b"]}
        for y in ({"m": 0, "b": 1}, {"m": 1, "b": 3}, {"m": 2, "b": 0}, {"m": 0, "b": scn["met"] * G - 1}):
            sx, sy = _snap(x["m"], x["b"], scn["met"]), _snap(y["m"], y["b"], scn["met"])
            base = {"ext": True, "x": x, "y": y, "met": scn["met"], "exc": ""}
            for op, fn in (("add", lambda: sx + sy), ("sub", lambda: sx - sy)):
                r = dict(base, id=f"{rec['id']}/{op}/{y['m']}.{y['b']}", op=op, cls=f"ext.snap.{op}", out={"m": 0, "b": 0})
                try:
                    r["out"] = _pos(fn())
                except Exception as e:
                    r["exc"] = exc_name(e).split(":")[0]
                out.append(r)
            r = dict(base, id=f"{rec['id']}/cmp/{y['m']}.{y['b']}", op="cmp", cls="ext.snap.cmp", lt=False, eq=False, gt=False)
            try:
                r["lt"], r["eq"], r["gt"] = bool(sx < sy), bool(sx == sy), bool(sx > sy)
            except Exception as e:
                r["exc"] = exc_name(e).split(":")[0]
            out.append(r)
        from reamber.algorithms.timing.utils.BpmChangeOffset import BpmChangeOffset
        for bl in (500000, 250000):          # ticks of 1 us per beat
            r = {"id": f"{rec['id']}/offset/{bl}", "op": "offset", "cls": "ext.snap.offset", "ext": True, "x": rec["out"],
                 "met": scn["met"], "bl": bl, "exc": "", "out_t": 0}
            try:
                s = _snap(rec["out"]["m"], rec["out"]["b"], scn["met"])
                r["out_t"] = int(round(float(s.offset(BpmChangeOffset(bpm=60000.0 / (bl / 1000.0), metronome=scn["met"], offset=0))) * 1000))
            except Exception as e:
                r["exc"] = exc_name(e).split(":")[0]
            out.append(r)
    return out


def exec_lcm(scn):
    from reamber.algorithms.timing.utils.find_lcm import find_lcm
    rec = {"id": "lcm/" + ".".join(map(str, scn["a"])) + f"/{scn['th']}", "op": "lcm", "cls": "ext.find_lcm", "ext": True,
           "a": scn["a"], "th": scn["th"], "exc": "", "got": []}
    try:
        rec["got"] = [int(x) for x in find_lcm(list(scn["a"]), scn["th"])]
    except Exception as e:
        rec["exc"] = exc_name(e).split(":")[0]
    return [rec]


def exec_any(scn):
    return exec_norm(scn) if scn["kind"] == "norm" else exec_lcm(scn)
