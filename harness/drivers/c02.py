"""C02 driver: .sm text -> SMMapSet, compared with the denotation of the independently lexed tokens."""
from __future__ import annotations

import math

from harness.common import exc_name, rng
from harness.project import ProjectionError, sval
from harness.sm_text import KEYS, T, concretize, lex


def _t(x, what="offset"):
    v = float(x)
    if not math.isfinite(v):
        raise ProjectionError(f"{what} is {v}")
    return int(round(v * T))


def proj_map(m) -> dict:
    def simple(lst):
        return [{"t": _t(r.offset), "c": int(float(r.column))} for r in lst.df.itertuples()]

    def long(lst):
        return [{"t": _t(r.offset), "c": int(float(r.column)), "n": _t(r.length, "length")} for r in lst.df.itertuples()]
    return {"hits": simple(m.hits), "mines": simple(m.mines), "lifts": simple(m.lifts), "fakes": simple(m.fakes),
            "keysounds": simple(m.keysounds), "holds": long(m.holds), "rolls": long(m.rolls),
            "bpms": [{"t": _t(r.offset), "bl": int(round(60000.0 / float(r.bpm) * T))} for r in m.bpms.df.itertuples()],
            "type": sval(m.chart_type), "desc": sval(m.description), "diff": sval(m.difficulty), "meter": sval(m.difficulty_val),
            "radar": ",".join(sval(x) for x in m.groove_radar)}


def proj_set(ms) -> dict:
    return {"off": _t(ms.offset if ms.offset is not None else 0.0), "title": sval(ms.title), "artist": sval(ms.artist),
            "sample_start": _t(ms.sample_start, "sample_start"), "sample_length": _t(ms.sample_length, "sample_length"),
            "selectable": bool(ms.selectable), "credit": sval(ms.credit), "music": sval(ms.music), "background": sval(ms.background)}


def exec_sm(scn):
    from reamber.sm.SMMapSet import SMMapSet
    import os
    import tempfile
    extra = []
    if scn.get("second_chart"):
        k2 = KEYS[scn["second_chart"]]
        extra.append((scn["second_chart"], [[list("1" + "0" * (k2 - 1))] * 4, [list("0" * (k2 - 1) + "M")] * 4], "Easy", "2"))
    text = concretize(scn, style=scn["variant"] % 3, extra_charts=extra)
    ftok = lex(text)
    # the lexer says "1.0" for meter? keep strings as the file has them
    rec = {"id": scn["id"] + "/read", "op": "read", "cls": f"sm.read.{scn['type']}" if not scn.get("ext") else "ext.sm.read.stops",
           "ext": bool(scn.get("ext")), "exc": "", "file": ftok, "charts": [],
           "set": {}, "hdr_title": scn.get("title", "Song"), "hdr_artist": scn.get("artist", "Art"), "slack": 0}
    try:
        via = scn["variant"] % 4
        if via == 3:
            # through a file on disk (CRLF files keep their line ends)
            fd, path = tempfile.mkstemp(suffix=".sm", dir=None)
            with os.fdopen(fd, "w", encoding="utf8", newline="") as fh:
                fh.write(text)
            try:
                ms = SMMapSet.read_file(path)
            finally:
                os.unlink(path)
        elif via == 1:
            ms = SMMapSet.read(text.replace("\r\n", "\n").split("\n"))
        else:
            ms = SMMapSet.read(text.replace("\r\n", "\n"))
        rec["charts"] = [proj_map(m) for m in ms.maps]
        rec["set"] = proj_set(ms)
    except ProjectionError as e:
        rec["exc"] = "Projection:" + str(e)
    except Exception as e:
        rec["exc"] = exc_name(e)
    # the reader reports groove radar / meter in its own number formatting: compare numerically-equal strings
    for ch, fch in zip(rec["charts"], ftok["charts"]):
        ch["radar"] = _norm_nums(ch["radar"])
        fch["radar"] = _norm_nums(fch["radar"])
    return [rec]


def _norm_nums(s):
    try:
        return ",".join(sval(float(x)) for x in s.split(",") if x != "")
    except ValueError:
        return s


def random_scenarios(n):
    """beyond the model's bounds: up to 6 measures, row counts incl. 20/28/36/192, 3 tempo changes on the 1/48 grid"""
    r = rng("c02-random")
    out = []
    types = list(KEYS)
    for i in range(n):
        typ = r.choice(["dance-single", "dance-threepanel", "dance-solo", "kb7-single", "dance-double"])
        keys = KEYS[typ]
        rows = [r.choice([4, 8, 12, 16, 20, 24, 28, 36, 48, 192]) for _ in range(r.randint(1, 6))]
        total = sum(rows)
        occupied, objs, busy_until = set(), [], {}
        for _ in range(r.randint(1, 10)):
            k = r.choice(["1", "1", "M", "L", "F", "K", "2", "4"])
            c = r.randrange(keys)
            i0 = r.randrange(total)
            if (i0, c) in occupied or i0 <= busy_until.get(c, -1):
                continue
            if k in ("2", "4"):
                j = i0 + r.randint(1, max(1, min(40, total - 1 - i0)))
                if j >= total or any((x, c) in occupied for x in range(i0, j + 1)):
                    continue
                # nothing else may sit inside an open long note of the column, and long notes must not interleave
                if any(o["c"] == c and not (o["j"] < i0 or o["i"] > j) for o in objs):
                    continue
                objs.append({"k": k, "c": c, "i": i0, "j": j})
                occupied.add((i0, c)); occupied.add((j, c))
            else:
                if any(o["c"] == c and o["k"] in ("2", "4") and o["i"] < i0 < o["j"] for o in objs):
                    pass
                objs.append({"k": k, "c": c, "i": i0, "j": i0})
                occupied.add((i0, c))
        objs.sort(key=lambda o: o["i"])
        nb = r.randint(1, 4)
        ps = sorted(r.sample(range(1, 4 * 48 * len(rows)), nb - 1))
        bpms = [{"p48": 0, "bl": r.choice([50000, 25000, 37500, 30000, 75000])}] + \
               [{"p48": p, "bl": r.choice([50000, 25000, 37500, 30000, 75000])} for p in ps]
        out.append({"id": f"r{i}", "type": typ, "rows": rows, "objs": objs, "bpms": bpms,
                    "off": r.choice([0, -50000, 125000, 3300]), "variant": i, "second_chart": r.choice([None, "dance-single", "kb7-single"])})
    return out


def _balanced(measures):
    import re
    open_ = {}
    for m in measures:
        for row in [re.sub(r"//.*", "", ln).strip() for ln in m.split("\n")]:
            for c, ch in enumerate(row):
                if ch in "24":
                    open_[c] = True
                elif ch == "3":
                    open_[c] = False
    return not any(open_.values())


def bundled_scenarios(tier):
    """the first K measures of every chart of the repository's bundled .sm maps without #STOPS"""
    import glob
    import os
    import re
    from harness.common import REPO
    out = []
    for f in sorted(glob.glob(os.path.join(REPO, "rsc", "maps", "sm", "*.sm"))):
        with open(f, encoding="utf8") as fh:
            text = fh.read()
        if re.search(r"#STOPS:\s*[0-9]", text):
            continue
        for K in ((6,) if tier == "quick" else (4, 12, 30)):
            pieces = []
            for piece in text.split(";"):
                if "#NOTES:" in piece:
                    head, _, data = piece.rpartition(":")
                    meas = data.split(",")
                    kk = K
                    # extend the prefix until every hold / roll head in it has its tail
                    while kk < len(meas) and not _balanced(meas[:kk]):
                        kk += 1
                    data = ",".join(meas[:kk])
                    piece = head + ":" + data + "\n"
                elif "#BPMS:" in piece:
                    # tempo changes beyond the kept measures are dropped as well (1869 of them in Caravan)
                    pre, _, val = piece.partition("#BPMS:")
                    pairs = [p for p in val.replace("\n", "").split(",") if p.strip() and float(p.split("=")[0]) < 4 * K + 8]
                    piece = pre + "#BPMS:" + ",".join(pairs)
                pieces.append(piece)
            out.append({"id": f"b.{os.path.basename(f)}.{K}", "text": ";".join(pieces), "slack": 2 * K + 2})
    return out


def exec_bundled(scn):
    from reamber.sm.SMMapSet import SMMapSet
    ftok = lex(scn["text"])
    title = next((h["val"] for h in ftok["hdr"] if h["tag"] == "TITLE"), "")
    artist = next((h["val"] for h in ftok["hdr"] if h["tag"] == "ARTIST"), "")
    rec = {"id": scn["id"] + "/read", "op": "read", "cls": "sm.read.bundled", "exc": "", "file": ftok, "charts": [],
           "set": {}, "hdr_title": title, "hdr_artist": artist, "slack": scn["slack"]}
    try:
        ms = SMMapSet.read(scn["text"])
        rec["charts"] = [proj_map(m) for m in ms.maps]
        rec["set"] = proj_set(ms)
    except ProjectionError as e:
        rec["exc"] = "Projection:" + str(e)
    except Exception as e:
        rec["exc"] = exc_name(e)
    for ch, fch in zip(rec["charts"], ftok["charts"]):
        ch["radar"], fch["radar"] = _norm_nums(ch["radar"]), _norm_nums(fch["radar"])
        # numeric meter: "11" in the file, 11 in memory
    return [rec]
