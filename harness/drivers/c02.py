"""C02 driver: .sm text -> SMMapSet, compared with the denotation of the independently lexed tokens."""
from __future__ import annotations

import math

from harness.common import exc_name, rng
from harness.project import ProjectionError, sval
from harness.sm_text import KEYS, T, concretize, lex


def _t(x, what="offset"):
    v = float(x)
    if not math.isfinite(v):
        raise ProjectionError(f"{what} is {v}")
    return int(round(v * T))


def proj_map(m) -> dict:
    def simple(lst):
        return [{"t": _t(r.offset), "c": int(float(r.column))} for r in lst.df.itertuples()]

    def long(lst):
        return [{"t": _t(r.offset), "c": int(float(r.column)), "n": _t(r.length, "length")} for r in lst.df.itertuples()]
    return {"hits": simple(m.hits), "mines": simple(m.mines), "lifts": simple(m.lifts), "fakes": simple(m.fakes),
            "keysounds": simple(m.keysounds), "holds": long(m.holds), "rolls": long(m.rolls),
            "bpms": [{"t": _t(r.offset), "bl": int(round(60000.0 / float(r.bpm) * T))} for r in m.bpms.df.itertuples()],
            "type": sval(m.chart_type), "desc": sval(m.description), "diff": sval(m.difficulty), "meter": sval(m.difficulty_val),
            "radar": ",".join(sval(x) for x in m.groove_radar)}


def proj_set(ms) -> dict:
    return {"off": _t(ms.offset if ms.offset is not None else 0.0), "title": sval(ms.title), "artist": sval(ms.artist),
            "sample_start": _t(ms.sample_start, "sample_start"), "sample_length": _t(ms.sample_length, "sample_length"),
            "selectable": bool(ms.selectable), "credit": sval(ms.credit), "music": sval(ms.music), "background": sval(ms.background)}


def exec_sm(scn):
    from reamber.sm.SMMapSet import SMMapSet
    import os
    import tempfile
    extra = []
    if scn.get("second_chart"):
        k2 = KEYS[scn["second_chart"]]
        extra.append((scn["second_chart"], [[list("1" + "0" * (k2 - 1))] * 4, [list("0" * (k2 - 1) + "M")] * 4], "Easy", "2"))
    text = concretize(scn, style=scn["variant"] % 3, extra_charts=extra)
    ftok = lex(text)
    # the lexer says "1.0" for meter? keep strings as the file has them
    rec = {"id": scn["id"] + "/read", "op": "read", "cls": f"sm.read.{scn['type']}", "exc": "", "file": ftok, "charts": [],
           "set": {}, "hdr_title": scn.get("title", "Song"), "hdr_artist": scn.get("artist", "Art")}
    try:
        via = scn["variant"] % 4
        if via == 3:
            # through a file on disk (CRLF files keep their line ends)
            fd, path = tempfile.mkstemp(suffix=".sm", dir=None)
            with os.fdopen(fd, "w", encoding="utf8", newline="") as fh:
                fh.write(text)
            try:
                ms = SMMapSet.read_file(path)
            finally:
                os.unlink(path)
        elif via == 1:
            ms = SMMapSet.read(text.replace("\r\n", "\n").split("\n"))
        else:
            ms = SMMapSet.read(text.replace("\r\n", "\n"))
        rec["charts"] = [proj_map(m) for m in ms.maps]
        rec["set"] = proj_set(ms)
    except ProjectionError as e:
        rec["exc"] = "Projection:" + str(e)
    except Exception as e:
        rec["exc"] = exc_name(e)
    # the reader reports groove radar / meter in its own number formatting: compare numerically-equal strings
    for ch, fch in zip(rec["charts"], ftok["charts"]):
        ch["radar"] = _norm_nums(ch["radar"])
        fch["radar"] = _norm_nums(fch["radar"])
    return [rec]


def _norm_nums(s):
    try:
        return ",".join(sval(float(x)) for x in s.split(",") if x != "")
    except ValueError:
        return s
