"""EXTENSION driver (beyond the listed properties): osu!mania replay parsing, one record per real call.
A frame list becomes the `content` string of the osu! API (LZMA + base64 of "delta|keys|0|0," frames)."""
from __future__ import annotations

import base64
import lzma

from harness.common import exc_name


def api_content(frames) -> str:
    txt = ",".join(f"{f['d']}|{f['s']}|0|0" for f in frames) + ","
    return base64.b64encode(lzma.compress(txt.encode("ascii"), format=lzma.FORMAT_ALONE)).decode()


def exec_replay(scn):
    from reamber.algorithms.osu.parse_replay import parse_replay_actions, parse_replays_error
    frames, keys = scn["frames"], scn["keys"]
    rid = "rp/" + ".".join(f"{f['d']}:{f['s']}" for f in frames)
    out = []
    rec = {"id": rid + "/actions", "op": "actions", "cls": "ext.replay.actions", "ext": True, "frames": frames, "keys": keys,
           "exc": "", "out": []}
    acts = None
    try:
        df = parse_replay_actions(api_content(frames), keys=keys, src="api")
        acts = [{"t": int(r.offset), "c": int(r.column), "press": bool(r.is_press)} for r in df.itertuples()]
        rec["out"] = acts
    except Exception as e:
        rec["exc"] = exc_name(e).split(":")[0]
    out.append(rec)
    if not acts:
        return out
    # errors against a small chart: only columns where the replay has both a press and a release
    cols = [c for c in range(keys) if any(a["c"] == c and a["press"] for a in acts) and any(a["c"] == c and not a["press"] for a in acts)]
    if not cols:
        return out
    from harness.charts import new_map
    hits = [{"offset": float(t), "column": c} for c in cols for t in (7, 22)]
    holds = [{"offset": 12.0, "column": c, "length": 9.0} for c in cols]
    notes = [{"t": int(h["offset"]), "c": h["column"], "cat": "Hit"} for h in hits]
    notes += [{"t": 12, "c": c, "cat": "Hold Head"} for c in cols] + [{"t": 21, "c": c, "cat": "Hold Tail"} for c in cols]
    r2 = {"id": rid + "/errors", "op": "errors", "cls": "ext.replay.errors" + ("" if len(cols) == keys else ".untouched_column"), "ext": True, "frames": frames, "keys": keys, "exc": "",
          "notes": notes, "got": []}
    try:
        m = new_map("osu", {"hits": hits, "holds": holds, "bpms": [{"offset": 0.0, "bpm": 120.0, "metronome": 4}]})
        m.circle_size = keys
        # (columns without replay actions raise in the matching step: give them no notes)
        er = parse_replays_error({"r": api_content(frames)}, m, src="api", verbose=False)
        er = er.reset_index()
        r2["got"] = [{"t": int(x.offset), "c": int(x.column), "cat": str(x.category), "err": int(x.error)} for x in er.itertuples()
                     if int(x.column) in cols]
        # rows of columns the chart has no notes in are empty by construction
    except Exception as e:
        r2["exc"] = exc_name(e).split(":")[0]
    out.append(r2)
    return out
