"""C16/C14 driver for timed lists: replay TLC-emitted histories on real list objects of every
list class, probe the operation catalogue in every reached state, project everything."""
from __future__ import annotations

import importlib
import inspect
import pkgutil

from harness.common import exc_name, ms, rng
from harness.project import (ProjectionError, declared_fields, list_meta, other_fields, proj_item,
                             proj_list, sval)

_CLASSES = None


def list_classes():
    """Every TimedList subclass of the library, by name."""
    global _CLASSES
    if _CLASSES is None:
        import reamber
        from reamber.base.lists.TimedList import TimedList
        seen = {}
        for m in pkgutil.walk_packages(reamber.__path__, "reamber."):
            if ".playField" in m.name or "parse_replay" in m.name:
                continue
            try:
                mod = importlib.import_module(m.name)
            except Exception:
                continue
            for n, o in inspect.getmembers(mod, inspect.isclass):
                if issubclass(o, TimedList) and o.__module__ == m.name and not inspect.isabstract(o):
                    seen[n] = o
        _CLASSES = dict(sorted(seen.items()))
    return _CLASSES


def is_hold(cls) -> bool:
    from reamber.base.lists.notes.HoldList import HoldList
    return issubclass(cls, HoldList)


def item_kwargs(cls, o, n, k) -> dict:
    """Constructor arguments of row (offset o ticks, length n ticks, identity k) for class cls."""
    decl = declared_fields(cls)
    kw = {"offset": ms(o)}
    if "length" in decl:
        kw["length"] = ms(n)
    if "column" in decl:
        kw["column"] = k
    if "bpm" in decl:
        kw["bpm"] = 100.0 + k
    if "multiplier" in decl:
        kw["multiplier"] = 1.0 + k * 0.25
    if "sample_file" in decl:
        kw["sample_file"] = f"s{k}.wav"
    if "hitsound_file" in decl and k % 2:
        kw["hitsound_file"] = f"h{k}.wav"
    if "hitsound_file" in decl and not k % 2:
        kw["hitsound_file"] = ""
    # every other declared field gets an explicit value too (the declared default), so that the
    # expected row never depends on what a constructor would fill in
    props = cls._item_class()._props
    for name in decl:
        if name not in kw:
            d = props[name][1]
            kw[name] = list(d) if isinstance(d, list) else d
    if "sample" in decl:
        kw["sample"] = b""
    return kw


def mk_item(cls, o, n, k):
    return cls._item_class()(**item_kwargs(cls, o, n, k))


def abstract_row(cls, o, n, k) -> dict:
    """What the row must look like after construction: declared defaults for untouched fields."""
    decl = declared_fields(cls)
    props = cls._item_class()._props
    kw = item_kwargs(cls, o, n, k)
    return {"o": o, "n": n if "length" in decl else 0,
            "x": [sval(kw[f]) if f in kw else sval(props[f][1]) for f in other_fields(decl)]}


class Rec:
    def __init__(self, scn_id, cname, cls):
        self.scn_id, self.cname, self.cls = scn_id, cname, cls
        self.decl = declared_fields(cls)
        self.n = 0
        self.out = []

    def run(self, op, tl, call, args=None, result="list", check_share=False):
        """Execute `call()` with input list tl; project pre / pre_after / result."""
        self.n += 1
        r = {"id": f"{self.scn_id}/{self.cname}/{self.n}", "op": op, "cls": f"{self.cname}.{op}",
             "hold": is_hold(self.cls), "declared": self.decl, "cols": self.decl, "exc": "",
             "pre": [], "pre_after": [], "meta_pre": {}, "meta_after": {}, "post": [], "shared": 0}
        r.update(args or {})
        res = None
        try:
            if tl is not None:
                r["pre"] = proj_list(tl, self.decl)
                r["meta_pre"] = list_meta(tl)
            res = call()
            if result == "list":
                r["post"] = proj_list(res, self.decl)
                r["cols"] = [str(c) for c in res.df.columns]
            elif result == "item":
                r["post"] = [proj_item(res, self.decl)]
            elif result == "items":
                r["post"] = [proj_item(x, self.decl) for x in res]
            elif result == "none":
                pass
            elif result == "int":
                r["res"] = int(res)
            elif result == "offset":
                r["none"] = res is None
                r["res"] = 0 if res is None else round(float(res) * 1000)
            elif result == "offset2":
                a, b = res
                r["none"] = a is None and b is None
                r["res"] = 0 if a is None else round(float(a) * 1000)
                r["res2"] = 0 if b is None else round(float(b) * 1000)
        except ProjectionError as e:
            r["exc"] = "Projection:" + str(e)
        except Exception as e:
            r["exc"] = exc_name(e)
        if tl is not None:
            try:
                r["pre_after"] = proj_list(tl, self.decl)
                r["meta_after"] = list_meta(tl)
            except Exception as e:
                r["pre_after"] = [{"o": 0, "n": 0, "x": ["unprojectable:" + exc_name(e)]}]
        if check_share and res is not None and not r["exc"] and tl is not None and len(tl) and len(res):
            # documented copy: poking the result must not reach the input
            try:
                before = proj_list(tl, self.decl)
                res.df.iloc[0, list(res.df.columns).index("offset")] = 123456.0
                r["shared"] = 0 if proj_list(tl, self.decl) == before else 1
            except Exception:
                pass
        self.out.append(r)
        return None if r["exc"] else res


def probes(rec: Rec, tl, cuts, r, budget):
    """Sample `budget` operations of the catalogue in the current state (len/iter always)."""
    cls, n = rec.cls, len(tl)
    hold = is_hold(cls)
    cat = []
    cat.append(("len", lambda: rec.run("len", tl, lambda: len(tl), result="int")))
    cat.append(("iter", lambda: rec.run("iter", tl, lambda: list(iter(tl)), result="items")))
    cat.append(("first", lambda: rec.run("first", tl, tl.first_offset, result="offset")))
    cat.append(("last", lambda: rec.run("last", tl, tl.last_offset, result="offset")))
    cat.append(("first_last", lambda: rec.run("first_last", tl, tl.first_last_offset, result="offset2")))
    for i in range(-n, n):
        cat.append(("get", lambda i=i: rec.run("get", tl, lambda: tl[i], {"i": i}, result="item")))
    for i in (n, -n - 1):
        cat.append(("get_oob", lambda i=i: rec.run("get_oob", tl, lambda: tl[i], {"i": i}, result="item")))
    for a, b in ((0, 99), (1, 99), (-1, 99), (0, -1), (1, 2), (-2, 99), (2, 1), (0, 0), (-99, 1), (-99, 99)):
        sl = slice(None if a == -99 else a, None if b == 99 else b)
        cat.append(("slice", lambda sl=sl, a=a, b=b: rec.run("slice", tl, lambda: tl[sl], {"a": a, "b": b})))
    import numpy as np
    masks = [[bool((m >> j) & 1) for j in range(n)] for m in range(2 ** n)] if n <= 3 else \
        [[r.random() < 0.5 for _ in range(n)] for _ in range(6)]
    for mk in masks:
        cat.append(("mask", lambda mk=mk: rec.run("mask", tl, lambda: tl[np.array(mk, dtype=bool)], {"mask": mk},
                                                  check_share=True)))
    for rev in (False, True):
        cat.append(("sorted", lambda rev=rev: rec.run("sorted", tl, lambda: tl.sorted(reverse=rev), {"rev": rev},
                                                      check_share=True)))
    for t in cuts:
        for inc in (False, True):
            for flag in ((False, True) if hold else (None,)):
                if hold:
                    cat.append(("after", lambda t=t, inc=inc, f=flag: rec.run(
                        "after", tl, lambda: tl.after(ms(t), include_end=inc, include_tail=f),
                        {"t": t, "inc": inc, "tail": f}, check_share=True)))
                    cat.append(("before", lambda t=t, inc=inc, f=flag: rec.run(
                        "before", tl, lambda: tl.before(ms(t), include_end=inc, include_head=f),
                        {"t": t, "inc": inc, "head": f}, check_share=True)))
                else:
                    cat.append(("after", lambda t=t, inc=inc: rec.run(
                        "after", tl, lambda: tl.after(ms(t), include_end=inc), {"t": t, "inc": inc, "tail": False}, check_share=True)))
                    cat.append(("before", lambda t=t, inc=inc: rec.run(
                        "before", tl, lambda: tl.before(ms(t), include_end=inc), {"t": t, "inc": inc, "head": True}, check_share=True)))
    for lo in cuts:
        for hi in cuts:
            if lo > hi:
                continue
            for il in (False, True):
                for ih in (False, True):
                    if hold:
                        for hd in (False, True):
                            for tlf in (False, True):
                                cat.append(("between", lambda lo=lo, hi=hi, il=il, ih=ih, hd=hd, tlf=tlf: rec.run(
                                    "between", tl,
                                    lambda: tl.between(ms(lo), ms(hi), include_ends=(il, ih), include_head=hd,
                                                       include_tail=tlf),
                                    {"lo": lo, "hi": hi, "inclo": il, "inchi": ih, "head": hd, "tail": tlf}, check_share=True)))
                    else:
                        cat.append(("between", lambda lo=lo, hi=hi, il=il, ih=ih: rec.run(
                            "between", tl, lambda: tl.between(ms(lo), ms(hi), include_ends=(il, ih)),
                            {"lo": lo, "hi": hi, "inclo": il, "inchi": ih, "head": True, "tail": False}, check_share=True)))
                        if il == ih:
                            cat.append(("between", lambda lo=lo, hi=hi, il=il: rec.run(
                                "between", tl, lambda: tl.between(ms(lo), ms(hi), include_ends=il),
                                {"lo": lo, "hi": hi, "inclo": il, "inchi": il, "head": True, "tail": False}, check_share=True)))
    # append in its four argument forms
    for form in ("item", "list", "series", "df"):
        for sort in (False, True):
            o, ln, k = r.choice(cuts), r.choice([0, 500]), 7 + r.randrange(2)
            rows = [abstract_row(cls, o, ln, k)]
            if form == "list":
                rows.append(abstract_row(cls, o - 250, ln, k + 2))

            def do(form=form, sort=sort, o=o, ln=ln, k=k):
                it = mk_item(cls, o, ln, k)
                if form == "item":
                    arg = it
                elif form == "series":
                    arg = it.data
                elif form == "list":
                    arg = cls([it, mk_item(cls, o - 250, ln, k + 2)])
                else:
                    arg = cls([it]).df
                return tl.append(arg, sort=sort)
            cat.append(("append", lambda do=do, rows=rows, sort=sort, form=form: rec.run(
                "append", tl, do, {"add": rows, "sort": sort, "form": form}, check_share=True)))
    # appending a frame that lacks some of the receiver's columns (a list of a base class, a hand-made frame): the argument
    # itself must come back as it was handed over
    def do_partial():
        full = cls([mk_item(cls, r.choice(cuts), 0, 7)]).df
        keep = [c for c in full.columns if c in ("offset", "column", "length", "bpm", "metronome")]
        if len(keep) == len(full.columns):
            keep = keep[:-1]
        arg = full[keep].copy()
        holder = {"pre": [[str(c) for c in arg.columns], arg.to_json()]}
        try:
            tl.append(arg)
        finally:
            rec_ = holder
            rec_["after"] = [[str(c) for c in arg.columns], arg.to_json()]
            do_partial.last = rec_
        return None
    if len(cls([mk_item(cls, 0, 0, 7)]).df.columns) > 1:
        def run_partial():
            rec.run("append_partial", tl, do_partial, {"form": "partial_df"}, result="none")
            last = getattr(do_partial, "last", {"pre": [], "after": ["?"]})
            rec.out[-1]["arg_pre"], rec.out[-1]["arg_after"] = last["pre"], last.get("after", ["?"])
            if rec.out[-1]["exc"]:
                rec.out[-1]["exc"] = ""          # whether such an append is accepted is not the point here
        cat.append(("append_partial", run_partial))
    # appending nothing
    for sort in (False, True):
        cat.append(("append", lambda sort=sort: rec.run(
            "append", tl, lambda: tl.append(cls([]), sort=sort), {"add": [], "sort": sort, "form": "empty"},
            check_share=True)))
    cat.append(("deepcopy", lambda: rec.run("deepcopy", tl, tl.deepcopy, check_share=True)))
    if n:
        to = r.choice(cuts)
        cat.append(("move_start", lambda: rec.run("move_start", tl, lambda: tl.move_start_to(ms(to)), {"to": to},
                                                  check_share=True)))
        cat.append(("move_end", lambda: rec.run("move_end", tl, lambda: tl.move_end_to(ms(to)), {"to": to},
                                                check_share=True)))
    always = [c for c in cat if c[0] in ("len", "iter")]
    rest = [c for c in cat if c[0] not in ("len", "iter")]
    r.shuffle(rest)
    # round-robin over operation kinds so that `between` (largest family) does not crowd out the rest
    bykind = {}
    for c in rest:
        bykind.setdefault(c[0], []).append(c)
    kinds = list(bykind)
    r.shuffle(kinds)
    chosen = list(always)
    while len(chosen) < budget + len(always) and any(bykind.values()):
        for kd in kinds:
            if bykind[kd] and len(chosen) < budget + len(always):
                chosen.append(bykind[kd].pop())
    for _, f in chosen:
        f()


def exec_hist(scn) -> list[dict]:
    """Replay one TLC-emitted history on the list classes named in the scenario."""
    classes = list_classes()
    out = []
    for cname in scn["classes"]:
        cls = classes[cname]
        rec = Rec(scn["id"], cname, cls)
        r = rng(f"c16-{scn['id']}-{cname}")
        rows = [h for h in scn["hist"] if h["op"] == "row"]
        ops = [h for h in scn["hist"] if h["op"] != "row"]
        arows = [abstract_row(cls, h["o"], h["n"], h["k"]) for h in rows]
        tl = rec.run("from_items", None, lambda: cls([mk_item(cls, h["o"], h["n"], h["k"]) for h in rows]),
                     {"rows": arows})
        # the other constructors of the same content
        rec.run("from_dict", None, lambda: cls.from_dict([item_kwargs(cls, h["o"], h["n"], h["k"]) for h in rows]),
                {"rows": arows})
        # omitted keys are filled with the declared defaults
        part = [f for f in ("offset", "length", "column", "bpm") if f in declared_fields(cls)]
        prows = [dict(abstract_row(cls, h["o"], h["n"], h["k"]),
                      x=[sval(item_kwargs(cls, h["o"], h["n"], h["k"])[f]) if f in part else sval(cls._item_class()._props[f][1])
                         for f in other_fields(declared_fields(cls))]) for h in rows]
        rec.run("from_dict", None, lambda: cls.from_dict([{f: item_kwargs(cls, h["o"], h["n"], h["k"])[f] for f in part}
                                                          for h in rows]), {"rows": prows, "form": "partial"})
        if rows:
            def cols_form():
                kws = [item_kwargs(cls, h["o"], h["n"], h["k"]) for h in rows]
                keys = list(kws[0].keys())
                if any(list(k.keys()) != keys for k in kws):
                    return cls.from_dict(kws)
                return cls.from_dict({k: [kw[k] for kw in kws] for k in keys})
            rec.run("from_dict", None, cols_form, {"rows": arows})
        # an undeclared key (in a later record, in the first one, or as a column) is refused, or at least never becomes a field
        for form in ("later_record", "first_record", "column"):
            kws = [item_kwargs(cls, h["o"], h["n"], h["k"]) for h in rows] or [item_kwargs(cls, 0, 0, 0)]
            if form == "later_record" and len(kws) < 2:
                continue

            def bad(form=form, kws=kws):
                if form == "column":
                    d = {k: [kw[k] for kw in kws] for k in kws[0]}
                    d["bogus"] = [1] * len(kws)
                    return cls.from_dict(d)
                kws = [dict(k) for k in kws]
                kws[-1 if form == "later_record" else 0]["bogus"] = 1
                return cls.from_dict(kws)
            rec.run("from_dict_undeclared", None, bad, {"form": form})
            last = rec.out[-1]
            last["refused"] = last["exc"].startswith("ValueError")
            if last["refused"]:
                last["exc"] = ""
        props = cls._item_class()._props
        decl = declared_fields(cls)
        default = {"o": 0, "n": 0, "x": [sval(props[f][1]) for f in other_fields(decl)]}
        nrows = len(rows)
        rec.run("empty", None, lambda: cls.empty(nrows), {"n": nrows, "default": default})
        if tl is None:
            out += rec.out
            continue
        cuts = scn["cuts"]
        probes(rec, tl, cuts, r, scn["budget"])
        for h in ops:
            op = h["op"]
            if op == "sorted":
                tl = rec.run("sorted", tl, lambda: tl.sorted(reverse=h["rev"]), {"rev": h["rev"]})
            elif op == "append":
                it = mk_item(cls, h["o"], h["n"], h["k"])
                tl = rec.run("append", tl, lambda: tl.append(it, sort=h["sort"]),
                             {"add": [abstract_row(cls, h["o"], h["n"], h["k"])], "sort": h["sort"], "form": "item"})
            elif op == "after":
                tl = rec.run("after", tl, lambda: tl.after(ms(h["t"]), include_end=h["inc"]),
                             {"t": h["t"], "inc": h["inc"], "tail": False})
            elif op == "before":
                tl = rec.run("before", tl, lambda: tl.before(ms(h["t"]), include_end=h["inc"]),
                             {"t": h["t"], "inc": h["inc"], "head": True})
            elif op == "slice":
                a, b = h["a"], h["b"]
                sl = slice(None if a == -99 else a, None if b == 99 else b)
                tl = rec.run("slice", tl, lambda: tl[sl], {"a": a, "b": b})
            elif op == "deepcopy":
                tl = rec.run("deepcopy", tl, tl.deepcopy)
            if tl is None:
                break
            probes(rec, tl, cuts, r, scn["budget"])
        out += rec.out
    return out
