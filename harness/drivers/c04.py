"""C04 driver: BMS text -> BMSMap for each channel layout."""
from __future__ import annotations

import math

from harness.bms_text import T, concretize, lex
from harness.common import exc_name, rng
from harness.project import ProjectionError, sval


def _s(v):
    if isinstance(v, bytes):
        return v.decode("shift_jis", errors="replace")
    return sval(v)


def _t(x, what="offset"):
    v = float(x)
    if not math.isfinite(v):
        raise ProjectionError(f"{what} is {v}")
    return int(round(v * T))


def proj_chart(m) -> dict:
    return {"hits": [{"t": _t(r.offset), "c": int(float(r.column)), "sample": _s(r.sample)} for r in m.hits.df.itertuples()],
            "holds": [{"t": _t(r.offset), "c": int(float(r.column)), "n": _t(r.length, "length"), "sample": _s(r.sample)}
                      for r in m.holds.df.itertuples()],
            "bpms": [{"t": _t(r.offset), "bl": int(round(60000.0 / float(r.bpm) * T))} for r in m.bpms.df.itertuples()],
            "title": _s(m.title), "artist": _s(m.artist), "version": _s(m.version),
            "exbpms": [{"id": _s(k).upper(), "bpm1000": int(round(float(v) * 1000))} for k, v in m.exbpms.items()],
            "misc": [[_s(k).upper(), _s(v).strip()] for k, v in m.misc.items()]}      # surrounding blanks of a value are not content


def layout_of(name):
    from reamber.bms.BMSChannel import BMSChannel
    return getattr(BMSChannel, name)


def exec_bms(scn):
    from reamber.bms.BMSMap import BMSMap
    import os
    import tempfile
    r = rng("c04-" + scn["id"])
    v = scn["variant"]
    f = scn["file"]
    if scn.get("ext"):
        f = dict(f, sigs=scn["sigs"])
    lane = next((ln["ch"] for ln in f["lines"] if ln["ch"] not in ("03", "08")), None)
    fine = v % 13 == 5 and lane and not scn.get("ext")
    if fine:
        # a very fine line (800 / 1536 subdivisions) with an object on an odd index, in a later measure of a lane in use
        dd = [800, 1536][v % 2]
        f = dict(f, lines=list(f["lines"]) + [{"m": 3, "ch": lane, "d": dd, "objs": [{"i": dd // 2 + 1, "id": "01", "val": 0}]}])
    if scn.get("override"):
        # measure 0 carries a mid-measure change on channel 03 and, later in the file, an override of #BPM at its start on channel 08
        f = dict(f, lines=list(f["lines"]) + [{"m": 0, "ch": "03", "d": 2, "objs": [{"i": 1, "id": "T", "val": 25000}]},
                                               {"m": 0, "ch": "08", "d": 1, "objs": [{"i": 0, "id": "T", "val": 40000}]}])
    # ids written consistently in lower case (header keys, LNOBJ, data); measures far into the file (9xx)
    idmap = {"01": "az", "02": "b7", "ZZ": "zz"} if v % 5 == 2 else {"01": "Az", "02": "0z"} if v % 5 == 4 else None
    moff = (899 if v % 11 == 3 else 997 if v % 11 == 7 else 0) if not scn.get("ext") and not fine else 0
    lines = concretize(f, r, merge=(v % 2 == 1), shuffle=(v % 3 != 0), lower=False, late_headers=(v % 7 == 5), idmap=idmap, moff=moff)
    ftok = lex(lines)
    rec = {"id": scn["id"] + "/read", "op": "read", "cls": f"bms.read.{scn['layout']}.{'ordered' if v % 3 == 0 else 'shuffled'}",
           "layout": scn["layout"], "exc": "", "file": ftok, "chart": {}, "slack": 0}
    if scn.get("ext"):
        rec["ext"], rec["cls"], rec["slack"] = True, "ext.bms.read.timesig", 12
    try:
        if v % 4 == 3:
            fd, path = tempfile.mkstemp(suffix=".bms")
            with os.fdopen(fd, "wb") as fh:
                fh.write("\r\n".join(lines).encode("shift_jis"))
            try:
                m = BMSMap.read_file(path, layout_of(scn["layout"]))
            finally:
                os.unlink(path)
        else:
            m = BMSMap.read(lines, layout_of(scn["layout"]))
        rec["chart"] = proj_chart(m)
    except ProjectionError as e:
        rec["exc"] = "Projection:" + str(e)
    except Exception as e:
        rec["exc"] = exc_name(e)
    return [rec]


def bundled_scenarios(tier):
    """prefixes (measures < K) of the repository's bundled BMS maps that are inside the property's domain
    (no channel 02 lines): real-world headers, 36-base ids, merged lines"""
    import glob
    import os
    import re
    from harness.common import REPO
    out = []
    for f in sorted(glob.glob(os.path.join(REPO, "rsc", "maps", "bms", "*"))):
        with open(f, "rb") as fh:
            text = fh.read().decode("shift_jis", errors="replace")
        lines = [ln.strip() for ln in text.replace("\r\n", "\n").split("\n")]
        ext = any(re.match(r"^#\d{3}02:", ln) for ln in lines)     # channel 02: outside C04's domain -> extension record
        for K in ((6, 14) if tier == "quick" else (4, 8, 16, 32, 64)):
            keep = [ln for ln in lines if not re.match(r"^#\d{3}[0-9A-Za-z]{2}:", ln) or int(ln[1:4]) < K]
            out.append({"id": f"b.{os.path.basename(f)}.{K}", "lines": keep, "layout": "BME", "slack": 2 * K + 2 + (12 if ext else 0),
                        "ext": ext})
    return out


def exec_bundled(scn):
    from reamber.bms.BMSMap import BMSMap
    rec = {"id": scn["id"] + "/read", "op": "read", "cls": "bms.read.bundled" if not scn.get("ext") else "ext.bms.read.bundled.timesig",
           "layout": scn["layout"], "exc": "", "file": lex(scn["lines"]), "chart": {}, "slack": scn["slack"], "ext": bool(scn.get("ext"))}
    try:
        rec["chart"] = proj_chart(BMSMap.read(scn["lines"], layout_of(scn["layout"])))
    except ProjectionError as e:
        rec["exc"] = "Projection:" + str(e)
    except Exception as e:
        rec["exc"] = exc_name(e)
    return [rec]
