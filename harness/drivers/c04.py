"""C04 driver: BMS text -> BMSMap for each channel layout."""
from __future__ import annotations

import math

from harness.bms_text import T, concretize, lex
from harness.common import exc_name, rng
from harness.project import ProjectionError, sval


def _s(v):
    if isinstance(v, bytes):
        return v.decode("shift_jis", errors="replace")
    return sval(v)


def _t(x, what="offset"):
    v = float(x)
    if not math.isfinite(v):
        raise ProjectionError(f"{what} is {v}")
    return int(round(v * T))


def proj_chart(m) -> dict:
    return {"hits": [{"t": _t(r.offset), "c": int(float(r.column)), "sample": _s(r.sample)} for r in m.hits.df.itertuples()],
            "holds": [{"t": _t(r.offset), "c": int(float(r.column)), "n": _t(r.length, "length"), "sample": _s(r.sample)}
                      for r in m.holds.df.itertuples()],
            "bpms": [{"t": _t(r.offset), "bl": int(round(60000.0 / float(r.bpm) * T))} for r in m.bpms.df.itertuples()],
            "title": _s(m.title), "artist": _s(m.artist), "version": _s(m.version),
            "exbpms": [{"id": _s(k).upper(), "bpm1000": int(round(float(v) * 1000))} for k, v in m.exbpms.items()],
            "misc": [[_s(k).upper(), _s(v)] for k, v in m.misc.items()]}


def layout_of(name):
    from reamber.bms.BMSChannel import BMSChannel
    return getattr(BMSChannel, name)


def exec_bms(scn):
    from reamber.bms.BMSMap import BMSMap
    import os
    import tempfile
    r = rng("c04-" + scn["id"])
    v = scn["variant"]
    lines = concretize(scn["file"], r, merge=(v % 2 == 1), shuffle=(v % 3 != 0), lower=False, late_headers=(v % 7 == 5))
    ftok = lex(lines)
    rec = {"id": scn["id"] + "/read", "op": "read", "cls": f"bms.read.{scn['layout']}.{'ordered' if v % 3 == 0 else 'shuffled'}",
           "layout": scn["layout"], "exc": "", "file": ftok, "chart": {}}
    try:
        if v % 4 == 3:
            fd, path = tempfile.mkstemp(suffix=".bms")
            with os.fdopen(fd, "wb") as fh:
                fh.write("\r\n".join(lines).encode("shift_jis"))
            try:
                m = BMSMap.read_file(path, layout_of(scn["layout"]))
            finally:
                os.unlink(path)
        else:
            m = BMSMap.read(lines, layout_of(scn["layout"]))
        rec["chart"] = proj_chart(m)
    except ProjectionError as e:
        rec["exc"] = "Projection:" + str(e)
    except Exception as e:
        rec["exc"] = exc_name(e)
    return [rec]
