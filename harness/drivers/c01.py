"""C01 driver: .osu text <-> OsuMap in both directions, generations."""
from __future__ import annotations

import math

from harness.common import exc_name, rng
from harness.osu_text import concretize, lex
from harness.project import ProjectionError, sval

META_FIELDS = ["audio_file_name", "audio_lead_in", "preview_time", "countdown", "sample_set", "stack_leniency", "mode",
               "letterbox_in_breaks", "special_style", "widescreen_storyboard", "distance_spacing", "beat_divisor",
               "grid_size", "timeline_zoom", "title", "title_unicode", "artist", "artist_unicode", "creator", "version",
               "source", "tags", "beatmap_id", "beatmap_set_id", "hp_drain_rate", "circle_size", "overall_difficulty",
               "approach_rate", "slider_multiplier", "slider_tick_rate"]


def _f(x, what):
    v = float(x)
    if not math.isfinite(v):
        raise ProjectionError(f"{what} is {v}")
    return v


def _file(v):
    if v is None or (isinstance(v, float) and math.isnan(v)):
        return ""
    return sval(v)


def proj_chart(m) -> dict:
    ch = {"keys": int(_f(m.circle_size, "circle_size")), "hits": [], "holds": [], "bpms": [], "svs": [], "samples": [],
          "meta": {}, "bg": sval(m.background_file_name)}
    for r in m.hits.df.itertuples():
        ch["hits"].append({"t": int(round(_f(r.offset, "offset") * 1000)), "c": int(_f(r.column, "column")),
                           "hs": int(_f(r.hitsound_set, "hs")), "ss": int(_f(r.sample_set, "ss")),
                           "as": int(_f(r.addition_set, "as")), "ci": int(_f(r.custom_set, "ci")),
                           "vol": int(_f(r.volume, "vol")), "file": _file(r.hitsound_file)})
    for r in m.holds.df.itertuples():
        ch["holds"].append({"t": int(round(_f(r.offset, "offset") * 1000)), "c": int(_f(r.column, "column")),
                            "n": int(round(_f(r.length, "length") * 1000)),
                            "hs": int(_f(r.hitsound_set, "hs")), "ss": int(_f(r.sample_set, "ss")),
                            "as": int(_f(r.addition_set, "as")), "ci": int(_f(r.custom_set, "ci")),
                            "vol": int(_f(r.volume, "vol")), "file": _file(r.hitsound_file)})
    for r in m.bpms.df.itertuples():
        ch["bpms"].append({"t": int(round(_f(r.offset, "offset") * 1000)), "bpm": int(round(_f(r.bpm, "bpm") * 100)),
                           "met": int(_f(r.metronome, "met")), "ss": int(_f(r.sample_set, "ss")),
                           "si": int(_f(r.sample_set_index, "si")), "vol": int(_f(r.volume, "vol")), "kiai": bool(r.kiai)})
    for r in m.svs.df.itertuples():
        ch["svs"].append({"t": int(round(_f(r.offset, "offset") * 1000)), "m": int(round(_f(r.multiplier, "mult") * 10000)),
                          "ss": int(_f(r.sample_set, "ss")), "si": int(_f(r.sample_set_index, "si")),
                          "vol": int(_f(r.volume, "vol")), "kiai": bool(r.kiai)})
    for r in m.samples.df.itertuples():
        ch["samples"].append({"t": int(round(_f(r.offset, "offset") * 1000)), "file": sval(r.sample_file).strip('"'),
                              "vol": int(_f(r.volume, "vol"))})
    for k in META_FIELDS:
        v = getattr(m, k)
        if k == "tags":
            words = [str(x) for x in v] if isinstance(v, (list, tuple)) else str(v).split()
            ch["meta"][k] = {"str": " ".join(words), "words": words, "num": 0, "hi": 0}
        elif isinstance(v, (bool, int, float)) and not isinstance(v, str):
            from harness.osu_text import limbs
            hi, lo = limbs(int(round(float(v) * 1000)))
            ch["meta"][k] = {"str": sval(v), "words": [], "num": lo, "hi": hi}
        else:
            ch["meta"][k] = {"str": sval(v), "words": str(v).split(), "num": 0, "hi": 0}
    return ch


TITLES = ["", "a", "a:b", "a:b:c", "Re:Zero - x", "12:30", "  padded  "]
UNI = ["", "é:あ", "曲:名:三", "plain"]


def meta_lines(keys, r, variant):
    t = TITLES[variant % len(TITLES)].strip()
    u = UNI[variant % len(UNI)]
    return [("General", "AudioFilename", "audio.mp3"), ("General", "AudioLeadIn", "0"), ("General", "PreviewTime", str(1000 * (variant % 3) - 1)),
            ("General", "Countdown", str(variant % 2)), ("General", "SampleSet", ["None", "Normal", "Soft", "Drum"][variant % 4]),
            ("General", "StackLeniency", "0.7"), ("General", "Mode", "3"), ("General", "LetterboxInBreaks", "0"),
            ("General", "SpecialStyle", str((variant // 2) % 2)), ("General", "WidescreenStoryboard", "1"),
            ("Editor", "DistanceSpacing", "1.5"), ("Editor", "BeatDivisor", "4"), ("Editor", "GridSize", "8"),
            ("Editor", "TimelineZoom", "2.5"),
            ("Metadata", "Title", t), ("Metadata", "TitleUnicode", u), ("Metadata", "Artist", "art:ist" if variant % 3 == 0 else "artist"),
            ("Metadata", "ArtistUnicode", u[::-1]), ("Metadata", "Creator", "me:you" if variant % 5 == 0 else "me"),
            ("Metadata", "Version", f"{keys}K: Hard" if variant % 2 else "Hard"), ("Metadata", "Source", "src"),
            ("Metadata", "Tags", "t1 t2:x tag3" if variant % 2 else ""), ("Metadata", "BeatmapID", "12"), ("Metadata", "BeatmapSetID", "-1"),
            ("Difficulty", "HPDrainRate", "7.5"), ("Difficulty", "CircleSize", str(keys)), ("Difficulty", "OverallDifficulty", "8"),
            ("Difficulty", "ApproachRate", "5"), ("Difficulty", "SliderMultiplier", "1.4"), ("Difficulty", "SliderTickRate", "1")]


def exec_osu(scn):
    from reamber.osu.OsuMap import OsuMap
    r = rng("c01-" + scn["id"])
    out = []
    tps = [dict(t) for t in scn["tps"]]
    v_ = scn["variant"]
    if v_ % 5 == 3:
        # effects carry other bits beside kiai (8 = omit first bar line)
        for t in tps:
            t["fx"] = t["fx"] + 8
    if v_ % 6 == 4:
        # two uninherited lines on one timestamp: both are tempo points of the file
        k = next((i for i, t in enumerate(tps) if t["uninh"] == 1), None)
        if k is not None:
            tps.insert(k, dict(tps[k], code=tps[k]["code"] * 2, meter=tps[k]["meter"] + 1))
    tok = {"objs": scn["objs"], "tps": tps, "samples": scn.get("samples", []), "bg": scn.get("bg", "bg.png")}
    lines = concretize(tok, meta_lines(scn["keys"], r, scn["variant"]), style=scn["variant"] % 3)
    ftok = lex([ln.rstrip("\r") for ln in lines])          # what the text says, by the independent lexer
    rec = {"id": scn["id"] + "/read", "op": "read", "cls": "osu.read", "exc": "", "file": ftok, "chart": {}}
    m = None
    try:
        m = OsuMap.read(lines)
        rec["chart"] = proj_chart(m)
    except ProjectionError as e:
        rec["exc"] = "Projection:" + str(e)
    except Exception as e:
        rec["exc"] = exc_name(e)
    out.append(rec)
    if m is not None and not rec["exc"]:
        if scn["variant"] % 4 == 2 and scn["keys"] <= 15:
            # history: the chart is moved to a larger key count after it was read
            m.circle_size = scn["keys"] + 3
            out += write_records(m, scn["id"], "osu.write.rechart")
        else:
            out += write_records(m, scn["id"], "osu.write.after_read")
    return out


def write_records(m, rid, cls):
    """write m; the written text must denote m; reading it back must give what the text denotes;
    later generations must not drift."""
    from reamber.osu.OsuMap import OsuMap
    out = []
    rec = {"id": rid + "/write", "op": "write", "cls": cls, "exc": "", "file": {}, "chart": {}}
    try:
        rec["chart"] = proj_chart(m)
        text = m.write()
        rec["file"] = lex(text)
    except ProjectionError as e:
        rec["exc"] = "Projection:" + str(e)
    except Exception as e:
        rec["exc"] = exc_name(e)
    out.append(rec)
    if rec["exc"]:
        return out
    # history: the same object written a second time must give a text denoting the same chart
    rec2 = {"id": rid + "/write2", "op": "write", "cls": cls + ".again", "exc": "", "file": {}, "chart": rec["chart"]}
    try:
        rec2["file"] = lex(m.write())
    except Exception as e:
        rec2["exc"] = exc_name(e)
    out.append(rec2)
    gens = []
    cur_text = text
    try:
        for g in range(3):
            flat = "\n".join(cur_text).split("\n")
            mg = OsuMap.read(flat)
            pg = proj_chart(mg)
            gens.append(pg)
            if g == 0:
                out.append({"id": rid + "/reread", "op": "read", "cls": "osu.read.written", "exc": "", "file": lex(cur_text),
                            "chart": pg})
            cur_text = mg.write()
        out.append({"id": rid + "/gens", "op": "generations", "cls": "osu.generations", "exc": "", "gens": gens})
    except ProjectionError as e:
        out.append({"id": rid + "/gens", "op": "generations", "cls": "osu.generations", "exc": "Projection:" + str(e), "gens": []})
    except Exception as e:
        out.append({"id": rid + "/gens", "op": "generations", "cls": "osu.generations", "exc": exc_name(e), "gens": []})
    return out


def exec_chart(scn):
    """in-memory charts with fractional / negative / large times, written and read back"""
    from harness.charts import new_map
    from reamber.osu.lists.OsuSampleList import OsuSampleList
    from reamber.osu.OsuSample import OsuSample
    r = rng("c01c-" + scn["id"])
    keys = scn["keys"]
    col_t = {}
    hits, holds = [], []

    def free(c, t, n=0.0):
        # objects of one column at least 3 ms apart (the 1 ms resolution must not merge them)
        for (a, b) in col_t.get(c, []):
            if t <= b + 3 and t + n >= a - 3:
                return False
        col_t.setdefault(c, []).append((t, t + n))
        return True
    for _ in range(scn["n"]):
        c = r.randrange(keys)
        t = r.choice([r.uniform(-5000, 5000), r.uniform(0, 2_000_000), float(r.randint(-10, 100000)), r.randint(0, 9999) + 0.5])
        if r.random() < 0.35:
            n = r.choice([r.uniform(1, 5000), float(r.randint(1, 3000)), 0.6])
            if free(c, t, n):
                holds.append({"offset": t, "column": c, "length": n, "hitsound_set": r.choice([0, 2, 4, 8, 14]),
                              "sample_set": r.randint(0, 3), "addition_set": r.randint(0, 3), "custom_set": r.randint(0, 2),
                              "volume": r.choice([0, 30, 100]), "hitsound_file": r.choice(["", "x.wav"])})
        elif free(c, t):
            hits.append({"offset": t, "column": c, "hitsound_set": r.choice([0, 2, 4, 8, 14]), "sample_set": r.randint(0, 3),
                         "addition_set": r.randint(0, 3), "custom_set": r.randint(0, 2), "volume": r.choice([0, 30, 100]),
                         "hitsound_file": r.choice(["", "y.wav"])})
    bt = sorted({r.choice([0.0, r.uniform(-100, 100000), float(r.randint(0, 50000))]) for _ in range(r.randint(1, 4))})
    bpms = [{"offset": t, "bpm": r.choice([120.0, 90.5, 333.33, 60000 / 333.0, 0.5, 999.0]), "metronome": r.choice([3, 4, 7]),
             "sample_set": r.randint(0, 3), "sample_set_index": r.randint(0, 2), "volume": r.choice([0, 50, 100]),
             "kiai": r.random() < 0.3} for t in bt]
    st = sorted({r.choice([r.uniform(-100, 100000), float(r.randint(0, 50000))]) for _ in range(r.randint(0, 4))})
    svs = [{"offset": t, "multiplier": r.choice([0.5, 1.0, 2.0, 0.01, 10.0, 1 / 3, -1.5 if scn.get("neg_sv") else 1.25]),
            "sample_set": r.randint(0, 3), "sample_set_index": r.randint(0, 2), "volume": r.choice([0, 50, 100]),
            "kiai": r.random() < 0.3} for t in st]
    m = new_map("osu", {"hits": hits, "holds": holds, "bpms": bpms, "svs": svs})
    m.circle_size = keys
    m.title, m.title_unicode = r.choice(["t", "a:b", "x: y: z"]), r.choice(["é:あ", "u"])
    m.artist, m.creator, m.version, m.source = "ar", r.choice(["c", "c:d"]), r.choice(["v", "7K: v"]), "s"
    m.tags = r.choice([[], ["a", "b:c"]])
    m.preview_time = r.choice([-1, 1234, 999.6])
    m.background_file_name = "bg file.png"
    m.samples = OsuSampleList([OsuSample(offset=r.choice([100.0, 2500.7, 1234567.0]), sample_file='"ev.wav"', volume=55)]
                              [:r.randint(0, 1)])
    form = scn["n"] % 4
    if form == 1:
        m.hits, m.holds = m.hits.sorted(reverse=True), m.holds.sorted(reverse=True)
    elif form == 2:
        m = m.rate(1.0)
    return write_records(m, scn["id"], f"osu.write.built{form}")


def bundled_scenarios(tier):
    """the repository's own .osu maps, cut into self-contained files of <= 50 (quick) / 120 (thorough) hit objects each
    (same header and timing points), so that real-world lines reach the validator"""
    import glob
    import os
    from harness.common import REPO
    files = sorted(glob.glob(os.path.join(REPO, "rsc", "maps", "osu", "*.osu")))
    out = []
    per_file = 1 if tier == "quick" else 12
    size = 50 if tier == "quick" else 120
    for f in files:
        with open(f, encoding="utf8") as fh:
            lines = fh.read().split("\n")
        try:
            ix = [ln.strip() for ln in lines].index("[HitObjects]")
        except ValueError:
            continue
        head, objs = lines[:ix + 1], [ln for ln in lines[ix + 1:] if ln.strip()]
        # ... and thousands of storyboard samples: keep the first 40
        nsmp = 0
        kept = []
        for ln in head:
            if ln.startswith("Sample,"):
                nsmp += 1
                if nsmp > 40:
                    continue
            kept.append(ln)
        head = kept
        # real maps carry thousands of SV lines: every cut file keeps at most 80 timing points (an evenly spaced
        # selection that always contains the first one), which is again a valid .osu text
        try:
            it = [ln.strip() for ln in head].index("[TimingPoints]")
            tp_lines = [ln for ln in head[it + 1:-1] if ln.strip() and not ln.strip().startswith("[")]
            if len(tp_lines) > 80:
                stepx = len(tp_lines) / 80.0
                tp_lines = [tp_lines[int(j * stepx)] for j in range(80)]
            head = head[:it + 1] + tp_lines + ["", ""] + [head[-1]]
        except ValueError:
            pass
        chunks = [objs[i:i + size] for i in range(0, len(objs), size)]
        step = max(1, len(chunks) // per_file)
        for k, ch in list(enumerate(chunks))[len(chunks) // 3::step][:per_file]:
            out.append({"id": f"b.{os.path.basename(f)}.{k}", "lines": head + ch})
    return out


def exec_bundled(scn):
    from reamber.osu.OsuMap import OsuMap
    lines = scn["lines"]
    rec = {"id": scn["id"] + "/read", "op": "read", "cls": "osu.read.bundled", "exc": "", "file": lex(lines), "chart": {}}
    out = [rec]
    try:
        m = OsuMap.read(lines)
        rec["chart"] = proj_chart(m)
    except ProjectionError as e:
        rec["exc"] = "Projection:" + str(e)
        return out
    except Exception as e:
        rec["exc"] = exc_name(e)
        return out
    return out + write_records(m, scn["id"], "osu.write.bundled")
