"""C06 driver: .qua documents <-> QuaMap, charts reaching the writer through conversions."""
from __future__ import annotations

import math

from harness.common import exc_name, rng
from harness.project import ProjectionError, sval
from harness.qua_text import concretize, scalar, tokens

STRS = ["", "plain", "x: y", "#a", "- b", "'q'", "\"dq\"", "é あ", "1:2:3", "yes", "007", " lead"]


def _f(x, what):
    v = float(x)
    if not math.isfinite(v):
        raise ProjectionError(f"{what} is {v}")
    return v


def _ks(v):
    if isinstance(v, list):
        return len(v)
    raise ProjectionError(f"keysounds is {v!r}")


def proj_chart(m):
    ch = {"hits": [], "holds": [], "bpms": [], "svs": [], "meta": {}}
    for r in m.hits.df.itertuples():
        ch["hits"].append({"t": int(round(_f(r.offset, "offset") * 1000)), "c": int(_f(r.column, "column")), "ks": _ks(r.keysounds)})
    for r in m.holds.df.itertuples():
        ch["holds"].append({"t": int(round(_f(r.offset, "offset") * 1000)), "c": int(_f(r.column, "column")),
                            "n": int(round(_f(r.length, "length") * 1000)), "ks": _ks(r.keysounds)})
    for r in m.bpms.df.itertuples():
        ch["bpms"].append({"t": int(round(_f(r.offset, "offset") * 1000)), "bpm": int(round(_f(r.bpm, "bpm") * 100))})
    for r in m.svs.df.itertuples():
        ch["svs"].append({"t": int(round(_f(r.offset, "offset") * 1000)), "m": int(round(_f(r.multiplier, "mult") * 10000))})
    names = {"AudioFile": "audio_file", "BackgroundFile": "background_file", "BannerFile": "banner_file", "Genre": "genre",
             "Mode": "mode", "Title": "title", "Artist": "artist", "Source": "source", "Creator": "creator",
             "DifficultyName": "difficulty_name", "Description": "description", "SongPreviewTime": "song_preview_time",
             "MapId": "map_id", "MapSetId": "map_set_id"}
    for k, a in names.items():
        v = getattr(m, a)
        ch["meta"][k] = scalar(v) if not isinstance(v, (list, dict)) else scalar(str(v))
        if k in ("SongPreviewTime", "MapId", "MapSetId"):
            ch["meta"][k] = {"tag": "num", "num": int(round(_f(v, k) * 1000)), "str": "", "words": []}
        else:
            ch["meta"][k] = {"tag": "str", "num": 0, "str": sval(v), "words": sval(v).split()}
    tags = m.tags if isinstance(m.tags, list) else str(m.tags).split()
    ch["meta"]["Tags"] = {"tag": "str", "num": 0, "str": " ".join(tags), "words": [str(t) for t in tags]}
    return ch


def meta_for(i):
    s = STRS[i % len(STRS)]
    return {"AudioFile": "audio.mp3", "SongPreviewTime": 1000 * (i % 3), "BackgroundFile": "bg.png", "Genre": STRS[(i + 3) % len(STRS)],
            "MapId": -1, "MapSetId": 7, "Mode": ["Keys4", "Keys7"][i % 2], "Title": s, "Artist": STRS[(i + 1) % len(STRS)],
            "Source": "", "Tags": "a b:c" if i % 2 else "", "Creator": STRS[(i + 5) % len(STRS)], "DifficultyName": STRS[(i + 7) % len(STRS)],
            "Description": "d"}


def rw_records(m, rid, cls):
    from reamber.quaver.QuaMap import QuaMap
    out = []
    rec = {"id": rid + "/write", "op": "write", "cls": cls, "exc": "", "doc": {}, "chart": {}}
    text = None
    try:
        rec["chart"] = proj_chart(m)
        text = m.write()
        rec["doc"] = tokens(text)
    except ProjectionError as e:
        rec["exc"] = "Projection:" + str(e)
    except Exception as e:
        rec["exc"] = exc_name(e)
    out.append(rec)
    if rec["exc"]:
        return out
    # history: the same object written a second time must give a document denoting the same chart
    rec2 = {"id": rid + "/write2", "op": "write", "cls": cls + ".again", "exc": "", "doc": {}, "chart": rec["chart"]}
    try:
        rec2["doc"] = tokens(m.write())
    except Exception as e:
        rec2["exc"] = exc_name(e)
    out.append(rec2)
    try:
        gens = []
        cur = text
        for g in range(3):
            mg = QuaMap.read(cur)
            pg = proj_chart(mg)
            gens.append(pg)
            if g == 0:
                out.append({"id": rid + "/reread", "op": "read", "cls": "qua.read.written", "exc": "", "doc": tokens(cur), "chart": pg})
            cur = mg.write()
        out.append({"id": rid + "/gens", "op": "generations", "cls": "qua.generations", "exc": "", "gens": gens})
    except ProjectionError as e:
        out.append({"id": rid + "/gens", "op": "generations", "cls": "qua.generations", "exc": "Projection:" + str(e), "gens": []})
    except Exception as e:
        out.append({"id": rid + "/gens", "op": "generations", "cls": "qua.generations", "exc": exc_name(e), "gens": []})
    return out


def exec_doc(scn):
    from reamber.quaver.QuaMap import QuaMap
    meta = meta_for(scn["variant"])
    # documents that omit metadata keys (the omitted key takes its own default)
    for k in ((), ("MapSetId",), ("MapId", "Genre"), ("Title", "SongPreviewTime", "Mode"), ("MapSetId", "BackgroundFile"))[scn["variant"] % 5]:
        meta.pop(k)
    if scn["variant"] % 5 == 1:
        meta["MapId"] = 31415
    # the declared key mode has room for every lane of the document
    if any(o["lane"]["tag"] != "absent" and o["lane"]["num"] > 4000 for o in scn["objs"]):
        meta["Mode"] = "Keys7"
    text = concretize(scn, meta, style=scn["variant"] % 3)
    out = []
    rec = {"id": scn["id"] + "/read", "op": "read", "cls": "qua.read", "exc": "", "doc": tokens(text), "chart": {}}
    m = None
    try:
        m = QuaMap.read(text if scn["variant"] % 2 else text.split("\n"))
        rec["chart"] = proj_chart(m)
    except ProjectionError as e:
        rec["exc"] = "Projection:" + str(e)
    except Exception as e:
        rec["exc"] = exc_name(e)
    out.append(rec)
    if m is not None and not rec["exc"]:
        out += rw_records(m, scn["id"], "qua.write.after_read")
    return out


def pair_scenarios():
    """documents with two objects, every combination of present / omitted StartTime and EndTime on each"""
    out = []
    A = {"tag": "absent", "num": 0}
    I = lambda n: {"tag": "int", "num": n}
    sts, ens = [A, I(1000000), I(-500000)], [A, I(1500000), I(0)]
    k = 0
    for s1 in sts:
        for e1 in ens:
            for s2 in sts:
                for e2 in ens:
                    out.append({"id": f"pair{k}", "variant": k, "kind": "qua", "tps": [{"st": A, "bpm": {"tag": "float", "num": 12000}}], "svs": [],
                                "objs": [{"st": s1, "lane": I(1000), "end": e1, "ks": A}, {"st": s2, "lane": I(2000), "end": e2, "ks": A}]})
                    k += 1
    return out


def exec_chart(scn):
    """charts that reach the writer through other histories: built, converted from the other games, rate-changed"""
    from harness.charts import new_map
    from harness.drivers import c08
    r = rng("c06-" + scn["id"])
    how = scn["how"]
    try:
        if how in ("built", "rated", "stacked", "full_ln"):
            n = scn["n"]
            hits = [{"offset": r.choice([float(r.randint(-100, 90000)), r.uniform(0, 90000)]), "column": r.randrange(4),
                     "keysounds": []} for _ in range(n)]
            hits.append({"offset": 95000.0, "column": 3, "keysounds": []})
            holds = [{"offset": 100000.0 + 1000 * i + r.choice([0, 0.6]), "column": i % 4, "length": r.choice([250.0, 100.6, 0.5]),
                      "keysounds": []} for i in range(n % 5)]
            bpms = [{"offset": 0.0, "bpm": r.choice([120.0, 90.5, 333.33]), "metronome": 4}]
            svs = [{"offset": r.uniform(0, 9000), "multiplier": r.choice([0.5, 2.0, 1 / 3])} for _ in range(n % 3)]
            if n % 7 == 3:
                # a long scroll-velocity list with two entries on one time (the later one is in force) and a tied tempo pair
                svs = [{"offset": 10.0 * j, "multiplier": 0.5 + (j % 9) * 0.25} for j in range(130)]
                svs.insert(51, {"offset": 500.0, "multiplier": 3.0})
                svs.insert(121, {"offset": 1190.0, "multiplier": 0.25})
                bpms = bpms + [{"offset": 60000.0, "bpm": 200.0, "metronome": 4}, {"offset": 60000.0, "bpm": 100.0, "metronome": 4}]
            m = new_map("qua", {"hits": hits, "holds": holds, "bpms": bpms, "svs": svs})
            m.title, m.artist, m.creator, m.difficulty_name = STRS[n % len(STRS)], "a", STRS[(n + 2) % len(STRS)], "d: x"
            m.tags = ["t1", "t:2"] if n % 2 else []
            if how == "rated":
                m = m.rate(1.5)
            elif how == "stacked":
                m.stack().offset += 0.25
            elif how == "full_ln":
                from reamber.algorithms.generate.full_ln import full_ln
                m = full_ln(m, gap=50, ln_as_hit_thres=20)
            return rw_records(m, scn["id"], f"qua.write.{how}")
        conv = how
        sg = c08.CONVERTERS[conv][0]
        src = c08.apply_history(c08.build_source(sg, scn["n"] % 4), scn.get("hist", []), sg)
        res = c08.call_converter(conv, src, 0)
        maps = res if isinstance(res, list) else [res]
        out = []
        for i, m in enumerate(maps):
            out += rw_records(m, f"{scn['id']}.{i}", f"qua.write.{conv}")
        return out
    except Exception as e:
        return [{"id": scn["id"] + "/build", "op": "write", "cls": f"qua.write.{how}", "exc": "build:" + exc_name(e), "doc": {}, "chart": {}}]


def bundled_scenarios(tier):
    """the repository's bundled .qua maps cut into documents of <= 60/120 hit objects (<= 60 SVs, all timing points)"""
    import glob
    import os
    import yaml
    from harness.common import REPO
    out = []
    size, per = (60, 2) if tier == "quick" else (120, 12)
    for f in sorted(glob.glob(os.path.join(REPO, "rsc", "maps", "qua", "*.qua"))):
        with open(f, encoding="utf8") as fh:
            tree = yaml.safe_load(fh.read())
        objs = tree.get("HitObjects") or []
        chunks = [objs[i:i + size] for i in range(0, len(objs), size)]
        step = max(1, len(chunks) // per)
        for k, ch in list(enumerate(chunks))[len(chunks) // 4::step][:per]:
            t = dict(tree)
            t["HitObjects"] = ch
            svs = t.get("SliderVelocities") or []
            if len(svs) > 60:
                t["SliderVelocities"] = [svs[int(j * len(svs) / 60)] for j in range(60)]
            out.append({"id": f"b.{os.path.basename(f)}.{k}", "text": yaml.safe_dump(t, default_flow_style=False, sort_keys=False,
                                                                                   allow_unicode=True)})
    return out


def exec_bundled(scn):
    from reamber.quaver.QuaMap import QuaMap
    text = scn["text"]
    out = []
    rec = {"id": scn["id"] + "/read", "op": "read", "cls": "qua.read.bundled", "exc": "", "doc": tokens(text), "chart": {}}
    m = None
    try:
        m = QuaMap.read(text)
        rec["chart"] = proj_chart(m)
    except ProjectionError as e:
        rec["exc"] = "Projection:" + str(e)
    except Exception as e:
        rec["exc"] = exc_name(e)
    out.append(rec)
    if m is not None and not rec["exc"]:
        out += rw_records(m, scn["id"], "qua.write.bundled")
    return out
