"""C03 driver: SMMapSet -> .sm text; the written text is lexed independently and judged by TLC."""
from __future__ import annotations

from harness.common import exc_name, rng
from harness.drivers.c02 import proj_map, proj_set
from harness.project import ProjectionError
from harness.sm_text import KEYS, T, concretize, lex

LISTS = {"1": "hits", "M": "mines", "L": "lifts", "F": "fakes", "K": "keysounds", "2": "holds", "4": "rolls"}


def build_set(scn, r):
    """the scenario as an in-memory map set, with the times the spec computed"""
    from harness.charts import new_map
    from reamber.sm.SMMapSet import SMMapSet
    content = {v: [] for v in LISTS.values()}
    for o, tm in zip(scn["objs"], scn["times"]):
        row = {"offset": tm["h"] / T, "column": o["c"]}
        if o["k"] in ("2", "4"):
            row["length"] = (tm["t"] - tm["h"]) / T
        content[LISTS[o["k"]]].append(row)
    content["bpms"] = [{"offset": st / T, "bpm": 60000.0 * T / b["bl"], "metronome": 4} for b, st in zip(scn["bpms"], scn["starts"])]
    if scn.get("how") == "dup_tempo":
        # the last tempo point overrides another one on the spot (same time, listed before it): the timeline is unchanged
        content["bpms"].insert(len(content["bpms"]) - 1, dict(content["bpms"][-1], bpm=content["bpms"][-1]["bpm"] * 1.5))
    maps = []
    for k in range(2 if scn.get("two_charts") else 1):
        m = new_map("sm", {kk: [dict(x) for x in v] for kk, v in content.items()})
        m.chart_type = scn["type"]
        m.description, m.difficulty, m.difficulty_val = "", ["Hard", "Easy"][k], 7 - 5 * k
        m.groove_radar = [0.1, 0.2, 0.3, 0.4, 0.5]
        maps.append(m)
    ms = SMMapSet(maps=maps)
    ms.title, ms.artist, ms.credit, ms.music, ms.background = scn.get("title", "Song"), "Art", "me", "a.ogg", "bg.png"
    ms.offset = scn["off"] / T
    ms.sample_start, ms.sample_length = 12500.0, 10000.0
    ms.selectable = scn.get("selectable", True)
    return ms


def write_records(ms, rid, cls, mem_on_lines):
    from reamber.sm.SMMapSet import SMMapSet
    out = []
    rec = {"id": rid + "/write", "op": "write", "cls": cls, "exc": "", "file": {}, "charts": [], "set": {}, "mem_on_lines": mem_on_lines}
    text = None
    try:
        rec["charts"] = [proj_map(m) for m in ms.maps]
        rec["set"] = proj_set(ms)
        text = ms.write()
        rec["file"] = lex(text)
        for ch, fch in zip(rec["charts"], rec["file"]["charts"]):
            from harness.drivers.c02 import _norm_nums
            ch["radar"], fch["radar"] = _norm_nums(ch["radar"]), _norm_nums(fch["radar"])
    except ProjectionError as e:
        rec["exc"] = "Projection:" + str(e)
    except Exception as e:
        rec["exc"] = exc_name(e)
    out.append(rec)
    if rec["exc"]:
        return out
    # reading the written text back keeps the header fields, and doing it again gives the same result
    rr = {"id": rid + "/reread", "op": "reread", "cls": cls + ".reread", "exc": "", "first": [], "second": [], "set": {}, "set_back": {},
          "on_lines": mem_on_lines}
    try:
        b1 = SMMapSet.read(text)
        b2 = SMMapSet.read(b1.write())
        rr["first"] = [proj_map(m) for m in b1.maps]
        rr["second"] = [proj_map(m) for m in b2.maps]
        keep = ("title", "artist", "off", "selectable", "sample_start", "sample_length", "credit", "music", "background")
        rr["set"] = {k: v for k, v in rec["set"].items() if k in keep}
        rr["set_back"] = {k: v for k, v in proj_set(b1).items() if k in keep}
    except ProjectionError as e:
        rr["exc"] = "Projection:" + str(e)
    except Exception as e:
        rr["exc"] = exc_name(e)
    out.append(rr)
    return out


def exec_write(scn):
    r = rng("c03-" + scn["id"])
    how = scn["how"]
    on_lines = all(b["p48"] % 192 == 0 for b in scn["bpms"])
    try:
        if how in ("built", "rated", "rated_odd", "edit_rewrite", "unsorted_bpms", "dup_tempo"):
            ms = build_set(scn, r)
            if how == "rated":
                ms = ms.rate(2.0).rate(0.5)
            elif how == "rated_odd":
                # a rate after which offset and sample window are no longer whole milliseconds (beat lengths stay whole ticks)
                ms = ms.rate(0.8)
                ms.sample_start, ms.sample_length = 12345.6, 10000.25
            elif how == "edit_rewrite":
                # history: written once, then the tempo is edited in place through the column property
                ms.write()
                for m in ms.maps:
                    m.bpms.bpm *= 2
            elif how == "unsorted_bpms":
                for m in ms.maps:
                    m.bpms = m.bpms.sorted(reverse=True)
            return write_records(ms, scn["id"], f"sm.write.{how}.{scn['type']}", on_lines)
        if how == "read":
            from reamber.sm.SMMapSet import SMMapSet
            ms = SMMapSet.read(concretize(scn, style=0))
            return write_records(ms, scn["id"], f"sm.write.read.{scn['type']}", on_lines)
        if how == "from_osu":
            # the same objects as an osu chart, converted
            from harness.charts import new_map
            from reamber.algorithms.convert.OsuToSM import OsuToSM
            hits = [{"offset": tm["h"] / T, "column": o["c"]} for o, tm in zip(scn["objs"], scn["times"]) if o["k"] == "1"]
            holds = [{"offset": tm["h"] / T, "column": o["c"], "length": (tm["t"] - tm["h"]) / T}
                     for o, tm in zip(scn["objs"], scn["times"]) if o["k"] == "2"]
            keys = KEYS[scn["type"]]
            if not any(o["c"] == keys - 1 and o["k"] in ("1", "2") for o in scn["objs"]):
                # the converter infers the key count from the highest column in use
                hits.append({"offset": scn["starts"][0] / T, "column": keys - 1})
            if not hits and not holds:
                return []
            osu = new_map("osu", {"hits": hits, "holds": holds,
                                  "bpms": [{"offset": st / T, "bpm": 60000.0 * T / b["bl"], "metronome": 4}
                                           for b, st in zip(scn["bpms"], scn["starts"])]})
            osu.circle_size = keys
            osu.title, osu.artist = "Song", "Art"
            ms = OsuToSM.convert(osu)
            ms.offset = scn["off"] / T      # the converter's own offset handling is judged in C09
            return write_records(ms, scn["id"], f"sm.write.from_osu.{scn['type']}", on_lines)
    except Exception as e:
        return [{"id": scn["id"] + "/build", "op": "write", "cls": f"sm.write.{how}", "exc": "build:" + exc_name(e)}]
    return []
