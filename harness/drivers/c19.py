"""C19 driver: dominant_bpm, scroll_speed, sv_normalize on charts of every game."""
from __future__ import annotations

import math

from harness.charts import new_map
from harness.common import exc_name, rng
from harness.project import ProjectionError

FORMS = ("plain", "shuffled", "rated1", "stacked", "sorted_rev")


def _fin(x, what):
    f = float(x)
    if not math.isfinite(f):
        raise ProjectionError(f"{what} is {f}")
    return f


def proj_in(m):
    tps = [{"t": int(round(_fin(r.offset, "tp.offset"))), "bpm": int(round(_fin(r.bpm, "bpm") * 10))}
           for r in m.bpms.df.itertuples()]
    svs = []
    if "svs" in m.objs:
        svs = [{"t": int(round(_fin(r.offset, "sv.offset"))), "m": int(round(_fin(r.multiplier, "mult") * 10000))}
               for r in m.objs["svs"].df.itertuples()]
    offs = [float(v) for l in m.objs.values() for v in l.df["offset"].tolist()]
    return tps, svs, int(round(min(offs))), int(round(max(offs)))


def build(game, scn, form, r):
    U = scn.get("unit", 1000.0)
    bpms = [{"offset": x["t"] * U, "bpm": x["bpm"] / 10.0, "metronome": 4} for x in scn["tps"]]
    svs = [{"offset": x["t"] * U, "multiplier": x["m"] / 10000.0} for x in scn["svs"]]
    hits = [{"offset": 0.0, "column": 0}, {"offset": scn["last"] * U, "column": 1}]
    if form == "shuffled":
        r.shuffle(bpms)
        r.shuffle(svs)
    c = {"hits": hits, "bpms": bpms}
    if game in ("osu", "qua"):
        c["svs"] = svs
    m = new_map(game, c)
    if form == "rated1":
        m = m.rate(1.0)
    elif form == "stacked":
        m.stack().offset += 0.0
    elif form == "sorted_rev":
        for k in list(m.objs):
            m.objs[k] = m.objs[k].sorted(reverse=True)
    return m


def exec_speed(scn):
    from reamber.algorithms.utils.dominant_bpm import dominant_bpm
    from reamber.algorithms.analysis.scroll_speed import scroll_speed
    r = rng("c19-" + scn["id"])
    out = []
    for game, form in scn["runs"]:
        rid = f"{scn['id']}/{game}/{form}"
        base = {"cls": f"{game}.{form}", "game": game, "exc": ""}
        try:
            m = build(game, scn, form, r)
            tps, svs, first, last = proj_in(m)
        except Exception as e:
            out.append(dict(base, id=rid + "/build", op="dominant", exc="build:" + exc_name(e), tps=[], last=0, out=0))
            continue
        has_sv = "svs" in m.objs
        rec = dict(base, id=rid + "/dom", op="dominant", tps=tps, last=last, out=0)
        try:
            rec["out"] = int(round(_fin(dominant_bpm(m), "dominant") * 10))
        except Exception as e:
            rec["exc"] = exc_name(e)
        out.append(rec)
        for ov in scn.get("overrides", [0]):
            rec = dict(base, id=rid + f"/scroll{ov}", op="scroll", tps=tps, svs=svs, has_sv=has_sv, first=first, last=last,
                       override=ov * 10, index=[], speed=[])
            try:
                s = scroll_speed(m, override_bpm=ov) if ov else scroll_speed(m)
                rec["index"] = [int(round(_fin(i, "index"))) for i in s.index.tolist()]
                rec["speed"] = [int(round(_fin(v, "speed") * 10000)) for v in s.tolist()]
            except ProjectionError as e:
                rec["exc"] = "Projection:" + str(e)
            except Exception as e:
                rec["exc"] = exc_name(e)
            out.append(rec)
            if has_sv:
                from reamber.algorithms.generate.sv_normalize import sv_normalize
                rec = dict(base, id=rid + f"/norm{ov}", op="normalize", tps=tps, last=last, override=ov * 10, out=[])
                try:
                    res = sv_normalize(m, override_bpm=ov) if ov else sv_normalize(m)
                    rec["out"] = [{"t": int(round(_fin(x.offset, "t"))), "m": int(round(_fin(x.multiplier, "m") * 10000))}
                                  for x in res.df.itertuples()]
                except ProjectionError as e:
                    rec["exc"] = "Projection:" + str(e)
                except Exception as e:
                    rec["exc"] = exc_name(e)
                out.append(rec)
    return out


def random_scenarios(n):
    r = rng("c19-random")
    out = []
    for i in range(n):
        ntp = r.randint(1, 7)
        times = sorted(r.sample(range(1, 60), ntp - 1))
        tps = [{"t": 0, "bpm": r.choice([600, 750, 900, 1200, 1500, 1800, 2400])}]
        tps += [{"t": t, "bpm": r.choice([600, 750, 900, 1200, 1500, 1800, 2400])} for t in times]
        if i % 5 == 1 and ntp >= 2:
            tps[-1]["bpm"] = r.choice([100, 50, 100])             # a crawl: far from the reference tempo
        if i % 4 == 1:
            for t in tps:
                t["t"] += 2                                   # the chart starts before its first tempo point
        last = max([t["t"] for t in tps]) + r.randint(0, 10)
        svs = sorted(({"t": r.randint(0, last), "m": r.choice([2500, 5000, 7500, 10000, 12500, 20000, 40000])}
                      for _ in range(r.randint(0, 8))), key=lambda x: x["t"])
        if i % 4 == 1:
            # a lead-in scroll velocity, none on the first tempo point itself
            svs = [{"t": 1, "m": 20000}] + [x for x in svs if x["t"] > 2]
        out.append({"id": f"r{i}", "tps": tps, "svs": svs, "last": last, "unit": 125.0,
                    "overrides": [0, r.choice([100, 175, 240])]})
    return out
