"""C10 driver: execute timing-engine scenarios on the real code and project the results.

No oracle is computed here: the functions below build the library's input objects from the
abstract scenario (tempo list in snap form on a 1/G-beat grid, integer ticks), call the library
and write down what came back.  TLC (spec/TempoTrace.tla) judges every record.
"""
from __future__ import annotations

from fractions import Fraction
from itertools import product

from harness.common import exc_name, ms, ticks, rng


def _bpm(bl_ticks: int) -> float:
    return 60000.0 / (bl_ticks / 1000.0)


def _build_tm(scn):
    from reamber.algorithms.timing.TimingMap import TimingMap
    from reamber.algorithms.timing.utils.BpmChangeSnap import BpmChangeSnap
    from reamber.algorithms.timing.utils.BpmChangeOffset import BpmChangeOffset
    from reamber.algorithms.timing.utils.snap import Snap
    from reamber.algorithms.timing.utils.Snapper import Snapper
    G = scn["G"]
    if scn.get("entry") in ("offset", "ctor_unsorted"):
        # offset form emitted by TLC (StartTicks of every change)
        bco = [BpmChangeOffset(_bpm(c["bl"]), c["met"], ms(s)) for c, s in zip(scn["tl"], scn["starts"])]
        if scn["entry"] == "ctor_unsorted":
            # plain dataclass constructor with the changes in reverse order
            return TimingMap(bpm_changes_offset=list(reversed(bco)))
        return TimingMap.from_bpm_changes_offset(bco)
    if scn.get("entry") == "edit_last":
        # history: build with another tempo on the last change, query once, then re-time it in place
        tl0 = [dict(c) for c in scn["tl"]]
        bcs = [BpmChangeSnap(_bpm(c["bl"]) * (1.5 if i == len(tl0) - 1 else 1), c["met"],
                             Snap(c["m"], Fraction(c["b"], G), c["met"])) for i, c in enumerate(tl0)]
        tm = TimingMap.from_bpm_changes_snap(ms(scn["t0"]), bcs, reseat=False)
        tm.offsets([Snap(0, Fraction(0), tl0[0]["met"])])
        tm.snaps([ms(scn["t0"])], Snapper())
        tm.bpm_changes_offset[-1].bpm = _bpm(tl0[-1]["bl"])
        return tm
    bcs = [BpmChangeSnap(_bpm(c["bl"]), c["met"], Snap(c["m"], Fraction(c["b"], G), c["met"]))
           for c in scn["tl"]]
    return TimingMap.from_bpm_changes_snap(ms(scn["t0"]), bcs, reseat=False)


def _seg_met(tl, m, b):
    met = tl[0]["met"]
    for c in tl:
        if (c["m"], c["b"]) <= (m, b):
            met = c["met"]
    return met


def _base(scn, op, n):
    return {"id": f"{scn['id']}/{op}{n}", "op": op, "cls": scn.get("cls", "grid"), "G": scn["G"],
            "t0": scn["t0"], "tl": scn["tl"], "exc": ""}


def exec_c10(scn) -> list[dict]:
    from reamber.algorithms.timing.utils.snap import Snap
    from reamber.algorithms.timing.utils.Snapper import Snapper
    if scn["kind"] == "snapper":
        return _exec_snapper(scn)
    G, tl = scn["G"], scn["tl"]
    recs = []
    # -- the offset form the code derives ------------------------------------------------
    r = _base(scn, "starts", 0)
    tm = None
    try:
        tm = _build_tm(scn)
        r["out"] = [ticks(b.offset) for b in tm.bpm_changes_offset]
    except Exception as e:
        r["out"], r["exc"] = [], exc_name(e)
    if scn.get("entry") != "ctor_unsorted":   # the raw constructor keeps the caller's order until first use
        recs.append(r)
    if tm is None:
        return recs
    # -- offsets(snaps) ---------------------------------------------------------------------
    for n, qs in enumerate(scn.get("queries", [])):
        r = _base(scn, "offsets", n)
        r["qs"] = [{"m": m, "b": b} for m, b in qs]
        try:
            snaps = [Snap(m, Fraction(b, G), _seg_met(tl, m, b)) for m, b in qs]
            out = tm.offsets(snaps)
            r["out"] = [ticks(x) for x in out]
        except Exception as e:
            r["out"], r["exc"] = [], exc_name(e)
        recs.append(r)
    # -- snaps(offsets) and back -----------------------------------------------------------
    snapper = Snapper(divisions=scn["divs"]) if scn.get("divs") else Snapper()
    for n, ts in enumerate(scn.get("times", [])):
        r = _base(scn, "snaps", n)
        r["ts"] = list(ts)
        try:
            sn = tm.snaps([ms(t) for t in ts], snapper)
            r["out"] = []
            for s in sn:
                mm = float(s.measure)
                if not mm.is_integer():
                    raise TypeError("non-integer measure")
                f = Fraction(s.beat)
                r["out"].append({"m": int(mm), "bn": f.numerator, "bd": f.denominator})
            back = tm.offsets(list(sn)) if len(ts) else []
            r["back"] = [ticks(x) for x in back]
        except Exception as e:
            r["out"], r["back"], r["exc"] = [], [], exc_name(e)
        recs.append(r)
    # -- EXTENSION: the other BpmList operations (reported as observations, not as C10 violations)
    if scn.get("starts") and scn.get("entry") == "snap" and scn.get("bpm_ops"):
        recs += _bpm_ops(scn)
    # -- cumulative beats (constant metronome only) ---------------------------------------------
    if len({c["met"] for c in tl}) == 1:
        for n, ts in enumerate(scn.get("beat_times", [])):
            r = _base(scn, "beats", n)
            r["ts"] = list(ts)
            try:
                out = tm.beats([ms(t) for t in ts], snapper)
                r["out"] = []
                for x in out:
                    f = Fraction(x)
                    r["out"].append({"n": f.numerator, "d": f.denominator})
            except Exception as e:
                r["out"], r["exc"] = [], exc_name(e)
            recs.append(r)
    return recs


def _exec_snapper(scn):
    from reamber.algorithms.timing.utils.Snapper import Snapper
    from reamber.algorithms.timing.utils import snap as snapmod
    recs = []
    divs = scn["divs"]
    try:
        sp = Snapper(divisions=divs)
    except Exception as e:
        return [{"id": f"{scn['id']}/ctor", "op": "snapper", "cls": "snapper", "divs": divs, "n": 0, "d": 1,
                 "out": {"n": 0, "d": 1}, "again": {"n": 0, "d": 1}, "exc": exc_name(e)}]
    for k, (n, d) in enumerate(scn["values"]):
        r = {"id": f"{scn['id']}/{k}", "op": "snapper", "cls": "snapper", "divs": divs, "n": n, "d": d, "exc": ""}
        try:
            o = sp.snap(n / d)
            a = sp.snap(float(o))
            r["out"] = {"n": o.numerator, "d": o.denominator}
            r["again"] = {"n": a.numerator, "d": a.denominator}
        except Exception as e:
            r["out"], r["again"], r["exc"] = {"n": 0, "d": 1}, {"n": 0, "d": 1}, exc_name(e)
        recs.append(r)
    return recs


# ------------------------------------------------------------------------------------------
# scenario expansion (inputs only)

def positions(tl, G, maxm):
    """all (m, b) positions of the model's query space: measures 0..maxm+1, every 1/G beat."""
    out = []
    for m in range(0, maxm + 2):
        met = _seg_met(tl, m, 0)
        out.extend((m, b) for b in range(met * G))
    return out


def expand_tl(scn, idx, maxq, tier):
    """From one TLC-emitted tempo list build: every ordered query tuple of length <= maxq."""
    G, tl = scn["G"], scn["tl"]
    pos = positions(tl, G, scn["maxm"])
    tuples = []
    for n in range(0, maxq + 1):
        tuples.extend(product(pos, repeat=n))
    out = []
    for entry in ("snap", "offset", "ctor_unsorted", "edit_last"):
        s = {"kind": "tl", "id": f"mc{idx}{entry[0]}", "cls": "grid", "G": G, "t0": scn["t0"], "tl": tl,
             "starts": scn["starts"], "entry": entry}
        if entry == "snap":
            s["queries"] = [list(t) for t in tuples]
        elif entry == "offset":
            s["queries"] = [list(t) for t in tuples if len(t) == maxq][::7]
        else:
            s["queries"] = [list(t) for t in tuples if len(t) == maxq][(3 if entry[0] == "c" else 5)::11]
        # times on the grid: every start plus j granules, and a few off-grid ticks
        times, r = [], rng(f"c10-{idx}")
        grid = []
        for c, st in zip(tl, scn["starts"]):
            grid += [st + j * (c["bl"] // G) for j in range(0, 2 * G + 1)]
        last = scn["starts"][-1]
        grid = [t for t in grid if t >= scn["t0"]]
        # only times whose active segment is the one they were generated from stay on grid; TLC decides
        for n in range(1, min(maxq, 3) + 1):
            for _ in range(6):
                times.append([r.choice(grid) for _ in range(n)])
        for _ in range(6):
            times.append([r.randint(scn["t0"], last + 3_000_000) for _ in range(3)])
        times.append([])
        s["times"] = times
        s["beat_times"] = [t for t in times[:12]] + [sorted(set(grid))[:6], list(reversed(sorted(set(grid))[:5]))]
        out.append(s)
    return out


def random_scenarios(n, tier):
    """Tempo lists and queries beyond the TLC-enumerated bounds (finer grids, longer lists)."""
    r = rng("c10-random")
    out = []
    for i in range(n):
        G = r.choice([2, 3, 4, 5, 6, 7, 8, 12, 16, 32, 48, 96])
        nchg = r.randint(1, 8)
        seated = r.random() < 0.5
        met0 = r.randint(1, 8)
        tl = []
        m, b = 0, 0
        for k in range(nchg):
            met = r.randint(1, 8) if seated else met0
            bl = G * r.randint(100000 // G + 1, 1500000 // G)
            if k > 0:
                pm = tl[-1]["met"]
                if seated:
                    m, b = m + r.randint(1, 4), 0
                else:
                    adv = r.randint(1, 3 * pm * G)
                    tot = b + adv
                    m, b = m + tot // (pm * G), tot % (pm * G)
            tl.append({"m": m, "b": b, "bl": bl, "met": met})
        t0 = r.choice([0, -r.randint(1, 5_000_000), r.randint(1, 5_000_000)])
        qs = []
        for _ in range(r.randint(3, 8)):
            q = []
            for _ in range(r.randint(0, 20)):
                qm = r.randint(0, m + 3)
                met = _seg_met(tl, qm, 0)
                q.append((qm, r.randrange(met * G)))
            if q and r.random() < 0.3:
                q.append(q[0])  # duplicate
            qs.append(q)
        scn = {"kind": "tl", "id": f"rnd{i}", "cls": "random", "G": G, "t0": t0, "tl": tl,
               "entry": "snap", "queries": qs, "_mk_times": True}
        if i % 5 == 0:
            # caller-supplied snapper on a grid the default one cannot represent
            scn["G"], scn["divs"] = 128, [1, 2, 4, 8, 16, 32, 64, 128]
            for c in tl:
                c["bl"] = 128 * (c["bl"] // 128)
                # change positions stay on the 1/16-beat grid (the TimingMap derives them with its own default snapper)
                c["b"] = (min(c["b"] * 128 // G, c["met"] * 128 - 1) // 8) * 8 if not seated else 0
            tl.sort(key=lambda c: (c["m"], c["b"]))
            ok = all((a["m"], a["b"]) < (b["m"], b["b"]) for a, b in zip(tl, tl[1:]))
            scn["queries"] = [[(qm, qb * 128 // G) for qm, qb in q] for q in qs]
            if not ok:
                continue
        out.append(scn)
    return out


def exec_c10_random(scn):
    """Random scenarios need input times: take the code's own change times as anchors (they are
    judged separately by the `starts` clause) and add whole granules; TLC decides which of them
    are on the grid."""
    if scn.get("_mk_times"):
        try:
            tm = _build_tm(scn)
            starts = [ticks(b.offset) for b in tm.bpm_changes_offset]
        except Exception:
            starts = None
        if starts and len(starts) == len(scn["tl"]):
            r = rng("t" + scn["id"])
            G = scn["G"]
            grid = []
            for k, (c, st) in enumerate(zip(scn["tl"], starts)):
                grid += [st + j * (c["bl"] // G) for j in r.sample(range(0, 6 * G), 4)]
            grid = [t for t in grid if t >= scn["t0"]]
            times = [[r.choice(grid) for _ in range(r.randint(1, 12))] for _ in range(4)]
            times += [[r.randint(scn["t0"], max(starts) + 5_000_000) for _ in range(5)] for _ in range(3)]
            scn = dict(scn, times=times, beat_times=times[:4])
    return exec_c10(scn)


def snapper_scenarios(tier):
    r = rng("c10-snapper")
    out = []
    divsets = [[1], [1, 2], [1, 2, 3, 4], [1, 2, 4, 8], [3], [1, 5, 7], [1, 2, 3, 4, 6, 8, 12, 16],
               [1, 2, 3, 4, 5, 6, 7, 8, 9, 12, 16, 32, 64, 96]]
    for i, divs in enumerate(divsets):
        vals = []
        # exhaustive small rationals, including exact mid-points and whole numbers
        for d in (1, 2, 3, 4, 5, 6, 7, 8, 9, 10, 12, 16, 24, 48, 64, 96, 100, 192):
            for n in range(0, 2 * d + 1):
                vals.append((n, d))
        for _ in range(400 if tier == "quick" else 4000):
            d = r.randint(1, 997)
            vals.append((r.randint(0, 5 * d), d))
        if max(divs) > 16 and tier == "quick":
            vals = vals[::3]
        out.append({"kind": "snapper", "id": f"sn{i}", "divs": divs, "values": vals})
    return out


def _bpm_ops(scn):
    from reamber.base.Bpm import Bpm
    from reamber.base.lists.BpmList import BpmList
    otl = [{"t": st, "bl": c["bl"], "bpm100": int(round(_bpm(c["bl"]) * 100))} for c, st in zip(scn["tl"], scn["starts"])]
    out = []

    def mk():
        return BpmList([Bpm(offset=ms(o["t"]), bpm=_bpm(o["bl"]), metronome=4) for o in otl])
    base = {"cls": "ext.bpmlist", "ext": True, "otl": otl, "exc": ""}
    last = otl[-1]["t"] + 2 * otl[-1]["bl"]
    times = [otl[0]["t"] - 1000] + [o["t"] for o in otl] + [o["t"] + 50 for o in otl] + [o["t"] - 50 for o in otl] + [last]
    for n, t in enumerate(times):
        r = dict(base, id=f"{scn['id']}/cur{n}", op="current_bpm", t=t, out_t=0, out_bl=0)
        try:
            b = mk().current_bpm(ms(t))
            r["out_t"], r["out_bl"] = ticks(b.offset), ticks(60000.0 / float(b.bpm))
        except Exception as e:
            r["exc"] = exc_name(e)
        out.append(r)
    for nths in (1, 2, 4):
        r = dict(base, id=f"{scn['id']}/snap{nths}", op="snap_offsets", nths=nths, last=last, out=[])
        try:
            r["out"] = [ticks(x) for x in mk().snap_offsets(nths, ms(last))]
        except Exception as e:
            r["exc"] = exc_name(e)
        out.append(r)
    r = dict(base, id=f"{scn['id']}/ave", op="ave_bpm", last=last, out100=0)
    try:
        r["out100"] = int(round(float(mk().ave_bpm(ms(last))) * 100))
    except Exception as e:
        r["exc"] = exc_name(e)
    out.append(r)
    return out


# ---- tempo lists given in OFFSET form whose changes sit slightly off the previous segment's grid ------------------
def anchored_scenarios(n):
    """changes on measure lines (nominal positions), each anchored at its own time = the time the previous segment
    gives +- up to 1 ms (well inside half a snap slot): the change's own offset is the ground truth for everything
    after it.  Built through TimingMap.from_bpm_changes_offset or through BpmList.to_timing_map; tempo values may repeat."""
    r = rng("c10-anchored")
    out = []
    G = 4
    for i in range(n):
        k = r.randint(2, 4)
        met = r.choice([3, 4, 4, 5])
        bls = [r.choice([500000, 400000, 600000, 300000]) for _ in range(k)]
        if i % 3 == 0:
            bls[1] = bls[0]                       # a change that repeats the tempo before it (re-anchoring only)
        tl, anchors, m = [], [], 0
        t = r.choice([0, -250000, 1250000])
        for j in range(k):
            if j:
                dm = r.randint(1, 3)
                t = anchors[-1] + dm * met * bls[j - 1] + r.choice([-1000, 1000, 2000 if bls[j - 1] >= 500000 else 1000, 0])
                m += dm
            tl.append({"m": m, "b": 0, "bl": bls[j], "met": met})
            anchors.append(t)
        via = "bpmlist" if i % 2 else "offset"
        if i % 10 == 7:
            # a long list handed over out of time order, with one change overridden on the spot (same time, listed before
            # the one in force): sorting must keep the order of the two
            nsec, met, t, m = 25, 4, 0, 0
            real = [[500000, 400000, 600000, 300000][j % 4] for j in range(nsec)]
            tl, anchors = [], []
            for j in range(nsec):
                if j:
                    t, m = t + 2 * met * real[j - 1], m + 2
                # every section start carries a placeholder tempo that the next entry overrides on the spot
                tl += [{"m": m, "b": 0, "bl": real[j] // 2 if j % 2 else real[j] * 2, "met": met}, {"m": m, "b": 0, "bl": real[j], "met": met}]
                anchors += [t, t]
            k = 2 * nsec - 1
            k, via = k + 1, "bpmlist_rot"
        qs, ts = [], []
        for j in range(k):
            if j + 1 < k and tl[j + 1]["m"] == tl[j]["m"]:
                continue                      # the overridden change has no extent
            span = (tl[j + 1]["m"] - tl[j]["m"]) * met * G if j + 1 < k else 3 * met * G
            for d in sorted({0, 1, r.randrange(span), span - 1}):
                if d < span:
                    mm, bb = divmod(d, met * G)
                    qs.append([tl[j]["m"] + mm, bb])
                    ts.append(anchors[j] + d * (tl[j]["bl"] // G))
        order = list(range(len(qs)))
        r.shuffle(order)
        out.append({"kind": "anchored", "id": f"an{i}", "G": G, "tl": tl, "anchors": anchors, "t0": anchors[0],
                    "via": via, "qs": [qs[x] for x in order][:40], "ts": [ts[x] for x in order][:40]})
    return out


def exec_anchored(scn):
    from reamber.algorithms.timing.TimingMap import TimingMap
    from reamber.algorithms.timing.utils.BpmChangeOffset import BpmChangeOffset
    from reamber.algorithms.timing.utils.snap import Snap
    from reamber.algorithms.timing.utils.Snapper import Snapper
    G, tl = scn["G"], scn["tl"]
    base = {"cls": f"anchored.{scn['via']}", "G": G, "tl": tl, "anchors": scn["anchors"], "t0": scn["t0"], "exc": ""}

    def mk():
        if scn["via"] in ("bpmlist", "bpmlist_rot"):
            from reamber.base.Bpm import Bpm
            from reamber.base.lists.BpmList import BpmList
            items = [Bpm(offset=ms(a), bpm=_bpm(c["bl"]), metronome=c["met"]) for c, a in zip(tl, scn["anchors"])]
            if scn["via"] == "bpmlist_rot":
                items = items[24:] + items[:24]
            return BpmList(items).to_timing_map()
        return TimingMap.from_bpm_changes_offset([BpmChangeOffset(_bpm(c["bl"]), c["met"], ms(a)) for c, a in zip(tl, scn["anchors"])])
    recs = []
    r = dict(base, id=scn["id"] + "/offsets", op="offsets_anch", qs=[{"m": m, "b": b} for m, b in scn["qs"]], out=[])
    try:
        tm = mk()
        r["out"] = [ticks(x) for x in tm.offsets([Snap(m, Fraction(b, G), tl[0]["met"]) for m, b in scn["qs"]])]
    except Exception as e:
        r["exc"] = exc_name(e)
    recs.append(r)
    r = dict(base, id=scn["id"] + "/snaps", op="snaps_anch", ts=scn["ts"], out=[], back=[])
    try:
        tm = mk()
        sn = tm.snaps([ms(t) for t in scn["ts"]], Snapper())
        for s_ in sn:
            f = Fraction(s_.beat)
            r["out"].append({"m": int(s_.measure), "bn": f.numerator, "bd": f.denominator})
        r["back"] = [ticks(x) for x in tm.offsets(list(sn))]
    except Exception as e:
        r["out"], r["back"], r["exc"] = [], [], exc_name(e)
    recs.append(r)
    return recs
