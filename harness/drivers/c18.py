"""C18 driver: hitsound_copy on pairs of osu charts."""
from __future__ import annotations

import math

from harness.charts import new_map
from harness.common import exc_name, rng
from harness.project import ProjectionError, sval


def notes_of(m):
    out = []
    for kind, lst in (("hit", m.hits), ("hold", m.holds)):
        df = lst.df
        for i in range(len(df)):
            r = df.iloc[i]
            t, c = float(r["offset"]), float(r["column"])
            n = float(r["length"]) if kind == "hold" else 0.0
            hs, vol = float(r["hitsound_set"]), float(r["volume"])
            if not all(math.isfinite(x) for x in (t, c, n, hs, vol)):
                raise ProjectionError(f"{kind} row {i} not finite")
            f = r["hitsound_file"]
            f = "" if f is None or (isinstance(f, float) and math.isnan(f)) else sval(f)
            out.append({"t": int(round(t * 1000)), "c": int(c), "n": int(round(n * 1000)), "k": kind,
                        "hs": int(hs), "vol": int(vol), "file": f})
    return out


def events_of(m):
    return [{"t": int(round(float(s.offset) * 1000)), "file": sval(s.sample_file), "vol": int(s.volume)}
            for s in m.samples.df.itertuples()]


def mk(notes, form, r, samples=()):
    hits = [{"offset": float(x["t"]), "column": x["c"], "hitsound_set": x["hs"], "volume": x["vol"],
             "hitsound_file": x["file"]} for x in notes if x["k"] == "hit"]
    holds = [{"offset": float(x["t"]), "column": x["c"], "length": float(x["n"]), "hitsound_set": x["hs"],
              "volume": x["vol"], "hitsound_file": x["file"]} for x in notes if x["k"] == "hold"]
    if form == "shuffled":
        r.shuffle(hits)
        r.shuffle(holds)
    m = new_map("osu", {"hits": hits, "holds": holds, "bpms": [{"offset": 0.0, "bpm": 120.0, "metronome": 4}]})
    m.circle_size = 7
    if samples:
        from reamber.osu.lists.OsuSampleList import OsuSampleList
        from reamber.osu.OsuSample import OsuSample
        m.samples = OsuSampleList([OsuSample(offset=float(t), sample_file=f, volume=v) for t, f, v in samples])
    if form == "rated":
        m = m.rate(1.0)
    elif form == "stacked":
        m.stack().offset += 0.0
    elif form == "sorted_rev":
        m.hits, m.holds = m.hits.sorted(reverse=True), m.holds.sorted(reverse=True)
    elif form == "appended":
        from reamber.osu.OsuHit import OsuHit
        m.hits = m.hits.append(OsuHit(offset=9000.0, column=0))
    return m


FORMS = ("plain", "shuffled", "rated", "stacked", "sorted_rev", "appended")


def exec_hs(scn):
    from reamber.algorithms.osu.hitsound_copy import hitsound_copy
    r = rng("c18-" + scn["id"])
    rec = {"id": scn["id"], "op": "hitsound_copy", "cls": f"hs.{scn['sform']}.{scn['tform']}", "exc": "",
           "src": [], "tgt": [], "out": [], "ev": [], "src_after": [], "tgt_after": [], "tgt_ev": [], "tgt_ev_after": []}
    try:
        src = mk(scn["src"], scn["sform"], r)
        tgt = mk(scn["tgt"], scn["tform"], r, samples=scn.get("tgt_samples", ()))
        rec["src"], rec["tgt"], rec["tgt_ev"] = notes_of(src), notes_of(tgt), events_of(tgt)
        res = hitsound_copy(src, tgt)
        rec["out"], rec["ev"] = notes_of(res), events_of(res)
        rec["src_after"], rec["tgt_after"], rec["tgt_ev_after"] = notes_of(src), notes_of(tgt), events_of(tgt)
    except ProjectionError as e:
        rec["exc"] = "Projection:" + str(e)
    except Exception as e:
        rec["exc"] = exc_name(e)
    return [rec]


def from_model(s, i):
    """a TLC-emitted single-time scenario -> source/target note sets (time 1000 ms), plus silent bystanders"""
    src = [dict(x, t=1000, c=j % 7, k="hit", n=0) for j, x in enumerate(s["src"])]
    if i % 3 == 0 and src:
        src[0] = dict(src[0], k="hold", n=500)
    # (a hold may have length 0)
    tgt = [{"t": 1000, "c": j, "n": 0 if (i + j) % 4 or (i + j) % 8 == 4 else 250, "k": "hit" if (i + j) % 4 else "hold",
            "hs": 0, "vol": 0, "file": ""} for j in range(s["ntgt"])]
    own = i % 5 == 0            # the target comes with sounds of its own
    tgt.append({"t": 2000, "c": 3, "n": 0, "k": "hit", "hs": 2 if own else 0, "vol": 30 if own else 0,
                "file": "own.wav" if own and i % 10 == 0 else ""})
    if own and tgt[:-1]:
        tgt[0] = dict(tgt[0], hs=4, vol=15)
    return {"id": f"m{i}", "src": src, "tgt": tgt, "sform": FORMS[i % len(FORMS)], "tform": FORMS[(i // 7) % len(FORMS)],
            "tgt_samples": [(500, "old.wav", 50)] if i % 11 == 0 else []}


def random_scenarios(n):
    r = rng("c18-random")
    out = []
    for i in range(n):
        times = r.sample([0, 250, 500, 1000, 1500, 2000], r.randint(1, 4))
        src, tgt = [], []
        for t in times:
            for _ in range(r.randint(0, 4)):
                kind = r.choice(["hit", "hit", "hold"])
                src.append({"t": t, "c": r.randint(0, 6), "n": 250 if kind == "hold" else 0, "k": kind,
                            "hs": r.choice([0, 2, 4, 8, 6, 10, 12, 14]), "vol": r.choice([0, 10, 20, 60]),
                            "file": r.choice(["", "", "a.wav", "b.wav", "c.wav"])})
            for _ in range(r.randint(0, 3)):
                kind = r.choice(["hit", "hold"])
                tgt.append({"t": t, "c": r.randint(0, 6), "n": r.choice([125, 125, 0]) if kind == "hold" else 0, "k": kind,
                            "hs": r.choice([0, 0, 2, 8]), "vol": r.choice([0, 25]), "file": r.choice(["", "", "t.wav"])})
        if i % 3 == 1:
            # near misses: target notes a fraction of a millisecond away from a sounded source time (as after a rate change)
            for t in times:
                tgt.append({"t": t + r.choice([0.4, -0.3, 0.25]), "c": r.randint(0, 6), "n": 0, "k": "hit", "hs": 0, "vol": 0, "file": ""})
        if i % 5 == 2:
            # both charts at times that are not whole milliseconds
            for x in src + tgt:
                x["t"] = x["t"] + 0.75
        if not tgt:
            tgt.append({"t": 3000, "c": 0, "n": 0, "k": "hit", "hs": 0, "vol": 0, "file": ""})
        out.append({"id": f"r{i}", "src": src, "tgt": tgt, "sform": r.choice(FORMS), "tform": r.choice(FORMS)})
    return out
