"""C07 driver: OJN bytes -> O2JMapSet, compared with the denotation of the independently decoded bytes."""
from __future__ import annotations

import math

from harness.common import exc_name, rng
from harness.ojn_bytes import T, decode, encode
from harness.project import ProjectionError, sval


def _t(x, what="offset"):
    v = float(x)
    if not math.isfinite(v):
        raise ProjectionError(f"{what} is {v}")
    return int(round(v * T))


def proj_map(m):
    return {"hits": [{"t": _t(r.offset), "c": int(float(r.column)), "vol": int(float(r.volume)), "pan": int(float(r.pan))}
                     for r in m.hits.df.itertuples()],
            "holds": [{"t": _t(r.offset), "c": int(float(r.column)), "n": _t(r.length, "length"), "vol": int(float(r.volume)),
                       "pan": int(float(r.pan))} for r in m.holds.df.itertuples()],
            "bpms": [{"t": _t(r.offset), "bl": int(round(60000.0 / float(r.bpm) * T))} for r in m.bpms.df.itertuples()]}


def proj_meta(ms):
    return {"title": sval(ms.title), "artist": sval(ms.artist), "creator": sval(ms.creator), "ojm_file": sval(ms.ojm_file),
            "song_id": int(ms.song_id), "genre": int(ms.genre), "bpm1000": int(round(float(ms.bpm) * 1000)),
            "level": [int(x) for x in ms.level], "note_count": [int(x) for x in ms.note_count],
            "package_count": [int(x) for x in ms.package_count], "event_count": [int(x) for x in ms.event_count],
            "duration": [int(x) for x in ms.duration], "measure_count": [int(x) for x in ms.measure_count]}


def exec_ojn(scn):
    from reamber.o2jam.O2JMapSet import O2JMapSet
    import os
    import tempfile
    r = rng("c07-" + scn["id"])
    lvl = scn["lvl"]
    # packages in measure order, as the files have them
    if scn.get("ext"):
        # EXTENSION: one measure-fraction package (channel 0)
        lvl = list(lvl) + [{"m": scn["sig"]["m"], "ch": 0, "n": 1, "evs": [{"i": 0, "kind": 0, "vol": 0, "pan": 0, "bl": 0, "f1000": scn["sig"]["f1000"]}]}]
    lvl = sorted(lvl, key=lambda p: (p["m"], p["ch"]))
    other = [{"m": 0, "ch": 2, "n": 1, "evs": [{"i": 0, "kind": 0, "vol": 1, "pan": 8, "bl": 0}]},
             {"m": 0, "ch": 1, "n": 1, "evs": [{"i": 0, "kind": 0, "vol": 0, "pan": 0, "bl": scn["bl0"]}]}]
    v = scn["variant"]
    lvls = [other, other, other]
    lvls[v % 3] = lvl
    if v % 5 == 0:
        lvls[(v + 1) % 3] = []          # a difficulty without packages
    meta = {"title": ["Title", "T" * 64, "a b"][v % 3], "artist": ["Artist", "A" * 32][v % 2], "creator": "Noter",
            "level": [1 + v % 9, 5, 20], "genre": v % 11, "song_id": 1000 + v}
    data = encode(lvls, scn["bl0"], meta)
    ftok = decode(data)
    rec = {"id": scn["id"] + "/read", "op": "read", "cls": "ojn.read", "exc": "", "file": ftok, "charts": [], "meta": {}, "slack": 0}
    if scn.get("ext"):
        rec["ext"], rec["cls"], rec["slack"] = True, "ext.ojn.read.measure_fraction", 12
    try:
        if v % 4 == 1:
            fd, path = tempfile.mkstemp(suffix=".ojn")
            with os.fdopen(fd, "wb") as fh:
                fh.write(data)
            try:
                ms = O2JMapSet.read_file(path)
            finally:
                os.unlink(path)
        else:
            ms = O2JMapSet.read(data)
        rec["charts"] = [proj_map(m) for m in ms.maps]
        rec["meta"] = proj_meta(ms)
    except ProjectionError as e:
        rec["exc"] = "Projection:" + str(e)
    except Exception as e:
        rec["exc"] = exc_name(e)
    return [rec]


def random_scenarios(n):
    r = rng("c07-random")
    out = []
    for i in range(n):
        lvl = []
        for c in r.sample(range(7), r.randint(1, 7)):
            pos = sorted({(r.randint(0, 5), r.choice([1, 2, 3, 4, 5, 7, 8, 12, 16, 192])) for _ in range(r.randint(1, 6))})
            evs, open_ = [], False
            last = None
            for m, n_ in pos:
                i_ = r.randrange(n_)
                p = (m, i_ / n_)
                if last is not None and p <= last:
                    continue
                last = p
                if open_:
                    kind, open_ = 3, False
                elif r.random() < 0.3:
                    kind, open_ = 2, True
                else:
                    kind = 0
                evs.append({"m": m, "ch": c + 2, "n": n_, "evs": [{"i": i_, "kind": kind, "vol": r.randint(0, 15), "pan": r.randint(0, 15), "bl": 0}]})
            if open_:
                evs[-1]["evs"][0]["kind"] = 0
            lvl += evs
        tpos = sorted({(r.randint(0, 7), r.choice([1, 2, 4, 8])) for _ in range(r.randint(0, 4))})
        seen = set()
        for m, n_ in tpos:
            i_ = r.randrange(n_)
            if (m, i_ / n_) in seen:
                continue
            seen.add((m, i_ / n_))
            lvl.append({"m": m, "ch": 1, "n": n_, "evs": [{"i": i_, "kind": 0, "vol": 0, "pan": 0, "bl": r.choice([25000, 40000, 50000, 75000])}]})
        if i % 5 == 2:
            # a very slow tempo (1.0625 bpm, a value with more than three decimals) for 1/192 of a measure, like a stop
            lvl.append({"m": 6, "ch": 1, "n": 192, "evs": [{"i": 10, "kind": 0, "vol": 0, "pan": 0, "bl": 5647059},
                                                            {"i": 11, "kind": 0, "vol": 0, "pan": 0, "bl": 50000}]})
            lvl.append({"m": 7, "ch": 2, "n": 1, "evs": [{"i": 0, "kind": 0, "vol": 1, "pan": 1, "bl": 0}]})
        out.append({"id": f"r{i}", "lvl": lvl, "bl0": r.choice([50000, 30000]), "variant": i})
    return out


def bundled_scenarios(tier):
    """prefixes (measures < K) of the repository's bundled .ojn files, decoded and re-encoded with the harness codec"""
    import glob
    import os
    from harness.common import REPO
    out = []
    for f in sorted(glob.glob(os.path.join(REPO, "rsc", "maps", "o2jam", "*.ojn"))):
        with open(f, "rb") as fh:
            tok = decode(fh.read())
        if any(p["ch"] == 0 for lvl in tok["lvls"] for p in lvl):
            continue                                   # measure-fraction packages: outside the property's domain
        for K in ((6,) if tier == "quick" else (4, 10, 24)):
            lvls = []
            for lvl in tok["lvls"]:
                keep = [p for p in lvl if p["m"] < K and (p["ch"] == 1 or 2 <= p["ch"] <= 8)]
                # drop long-note heads whose tail lies beyond the cut (and tails without head)
                open_ = {}
                fixed = []
                for p in sorted(keep, key=lambda p: (p["m"], p["ch"])):
                    evs = []
                    for e in p["evs"]:
                        if 2 <= p["ch"] <= 8 and e["kind"] == 2:
                            open_[p["ch"]] = (len(fixed), len(evs))
                        elif 2 <= p["ch"] <= 8 and e["kind"] == 3:
                            if p["ch"] not in open_:
                                continue
                            del open_[p["ch"]]
                        evs.append(dict(e))
                    fixed.append(dict(p, evs=evs))
                for ch, (pi, ei) in open_.items():
                    fixed[pi]["evs"][ei]["kind"] = 0       # an unclosed head becomes a plain note
                lvls.append(fixed)
            out.append({"id": f"b.{os.path.basename(f)}.{K}", "lvls": lvls, "bl0": tok["bl0"], "slack": 2 * K + 2,
                        "meta": {"title": tok["title"], "artist": tok["artist"], "creator": tok["creator"], "level": tok["level"][:3],
                                 "genre": tok["genre"], "song_id": tok["song_id"], "ojm": tok["ojm_file"]}})
    return out


def exec_bundled(scn):
    from reamber.o2jam.O2JMapSet import O2JMapSet
    data = encode(scn["lvls"], scn["bl0"], scn["meta"])
    rec = {"id": scn["id"] + "/read", "op": "read", "cls": "ojn.read.bundled", "exc": "", "file": decode(data), "charts": [], "meta": {},
           "slack": scn["slack"]}
    try:
        ms = O2JMapSet.read(data)
        rec["charts"] = [proj_map(m) for m in ms.maps]
        rec["meta"] = proj_meta(ms)
    except ProjectionError as e:
        rec["exc"] = "Projection:" + str(e)
    except Exception as e:
        rec["exc"] = exc_name(e)
    return [rec]
