"""C13 driver: rate changes on charts / map sets of the five games, composition, write+read."""
from __future__ import annotations

import math
from fractions import Fraction

from harness.charts import map_class, mapset_class, new_map
from harness.common import exc_name, rng
from harness.drivers.c12 import proj_lists
from harness.project import ProjectionError, sval


def content(game, shape, r):
    nh, nl, nsv, ns = shape
    hits = [{"offset": 0.0, "column": 0}, {"offset": 1500.0, "column": 3}][:nh]
    if game == "bms":
        for h in hits:
            h["sample"] = b"hit.wav"
    holds = [{"offset": 750.0, "column": 1, "length": 375.0}][:nl]
    bpms = [{"offset": 0.0, "bpm": 120.0, "metronome": 4}, {"offset": 2000.0, "bpm": 240.0, "metronome": 4}]
    c = {"hits": hits, "holds": holds, "bpms": bpms}
    if game == "sm":
        # first tempo point (= the file offset) away from zero
        for l in (hits, holds, bpms):
            for row in l:
                row["offset"] += 1000.0
    if nsv:
        c["svs"] = [{"offset": 250.0, "multiplier": 1.5}]
    if game == "sm" and nsv:
        c["mines"] = [{"offset": 1500.0, "column": 2}]
        c["rolls"] = [{"offset": 2000.0, "column": 2, "length": 250.0}]
    return c


def proj_meta(obj, game, i=0):
    """file-level fields: times (x1000) and every other metadata field as one string.
    For a generic MapSet wrapper the fields live on chart i."""
    if hasattr(obj, "maps") and game != "sm":
        if not obj.maps:
            return {"times": {}, "other": []}
        return proj_meta(obj.maps[i], game)
    times = {}
    skip = {"objs", "maps", "samples"}
    if game == "osu":
        times["preview_time"] = int(round(float(obj.preview_time) * 1000))
        for i, s in enumerate(obj.samples.df.itertuples()):
            times[f"sample{i}"] = int(round(float(s.offset) * 1000))
        skip |= {"preview_time"}
    if game == "sm":
        for k in ("offset", "sample_start", "sample_length"):
            v = getattr(obj, k)
            times[k] = int(round(float(v) * 1000))
        skip |= {"offset", "sample_start", "sample_length"}
    other = []
    d = getattr(obj, "__dict__", {})
    for k in sorted(d):
        if k in skip or k.startswith("_"):
            continue
        other.append(f"{k}={sval(d[k]) if not isinstance(d[k], (list, dict)) else str(d[k])}")
    if game == "osu":
        other.append("samples=" + ";".join(f"{sval(s.sample_file)}|{sval(s.volume)}" for s in obj.samples.df.itertuples()))
    return {"times": times, "other": other}


def _intify(c):
    """the same chart with python ints for the whole-number times (int64 columns)"""
    return {k: [{f: (int(v) if isinstance(v, float) and float(v).is_integer() and f in ("offset", "length", "bpm") else v)
                 for f, v in row.items()} for row in rows] for k, rows in c.items()}


def build(game, shape, r, mapset=False, variant="plain"):
    c = content(game, shape, r)
    if game == "sm" and shape[3]:
        c["stops"] = [{"offset": 1250.0, "length": 500.0}]
    if variant == "int_cols":
        c = _intify(c)
    m = new_map(game, c)
    if variant == "stack_edit" and len(m.hits):
        # history: a stacker was created earlier, then a list was edited through the list API
        m.stack()
        m.stack((type(m.hits),))
        m.hits.offset += 125.0
    if game == "osu":
        from reamber.osu.lists.OsuSampleList import OsuSampleList
        from reamber.osu.OsuSample import OsuSample
        m.preview_time = r.choice([3000, 8639])
        m.circle_size = 4
        # one sample event, or several with the earliest exactly at 0 ms
        smp = r.choice([[OsuSample(offset=1500.0, sample_file="a.wav", volume=60)],
                        [OsuSample(offset=0.0, sample_file="z.wav", volume=50), OsuSample(offset=1500.0, sample_file="a.wav", volume=60),
                         OsuSample(offset=4000.0, sample_file="b.wav", volume=70)]])
        m.samples = OsuSampleList(smp[: (len(smp) if shape[3] else 0)])
    if game == "sm" or mapset:
        kw = dict(maps=[m] + ([new_map(game, content(game, (2, 1, 0, 0), r))] if shape[3] else []))
        ms_ = mapset_class(game)(**kw)
        if game == "sm":
            ms_.offset = 1000.0
            ms_.sample_start = 6000.0
            ms_.sample_length = 12000.0
            ms_.title = "t"
            for mm in ms_.maps:
                mm.chart_type = "dance-single"
        return ms_
    return m


def _charts(obj):
    return list(obj.maps) if hasattr(obj, "maps") else [obj]


def _proj(obj, game):
    return [proj_lists(m) for m in _charts(obj)]


def _io(obj, game):
    """write then read back with the library's own reader."""
    if hasattr(obj, "maps") and game != "sm":
        return mapset_class(game)(maps=[_io(m, game) for m in obj.maps])
    if game == "osu":
        from reamber.osu.OsuMap import OsuMap
        return OsuMap.read(obj.write())
    if game == "qua":
        from reamber.quaver.QuaMap import QuaMap
        return QuaMap.read(obj.write().split("\n"))
    if game == "sm":
        from reamber.sm.SMMapSet import SMMapSet
        return SMMapSet.read(obj.write())
    return None


def exec_rates(scn):
    r = rng("c13-" + scn["id"])
    game, shape = scn["game"], scn["shape"]
    out = []
    rid = f"{scn['id']}/{game}"

    def rate_rec(obj, n, d, tag):
        rec = {"id": f"{rid}/{tag}", "op": "rate", "cls": f"{game}.rate" + (".mapset" if hasattr(obj, "maps") else ""),
               "game": game, "rn": n, "rd": d, "exc": "", "pre": [], "post": [], "pre_after": [],
               "meta_pre": {"times": {}, "other": []}, "meta_post": {"times": {}, "other": []},
               "meta_after": {"times": {}, "other": []}}
        res = None
        try:
            pre = _proj(obj, game)
            nch = len(pre)
            mpre = [proj_meta(obj, game, i) for i in range(nch)]
            res = obj.rate(n / d)
            post = _proj(res, game)
            mpost = [proj_meta(res, game, i) for i in range(len(post))]
            # "a new chart": the result is edited in place (and restored); the original must not see it
            touched = []
            for ch in (res.maps if hasattr(res, "maps") else [res]):
                for lst in ch.objs.values():
                    if len(lst):
                        lst.df.iloc[0, list(lst.df.columns).index("offset")] += 12345.0
                        touched.append(lst)
            after = _proj(obj, game)
            mafter = [proj_meta(obj, game, i) for i in range(len(after))]
            for lst in touched:
                lst.df.iloc[0, list(lst.df.columns).index("offset")] -= 12345.0
            # one record per chart of a map set
            recs = []
            for i, (a, b, c) in enumerate(zip(pre, post, after)):
                rr = dict(rec, id=f"{rec['id']}.{i}", pre=a, post=b, pre_after=c, meta_pre=mpre[i], meta_post=mpost[i],
                          meta_after=mafter[i])
                recs.append(rr)
            if len(pre) != len(post):
                recs.append(dict(rec, exc="ChartCountChanged"))
            out.extend(recs)
        except ProjectionError as e:
            out.append(dict(rec, exc="Projection:" + str(e)))
        except Exception as e:
            out.append(dict(rec, exc=exc_name(e)))
        return res

    obj = build(game, shape, r, mapset=scn.get("mapset", False), variant=scn.get("variant", "plain"))
    hist = scn["hist"]
    cur = obj
    for i, h in enumerate(hist):
        cur = rate_rec(cur, h["n"], h["d"], f"r{i}")
        if cur is None:
            return out
    if len(hist) == 2:
        a, b = hist
        f = Fraction(a["n"], a["d"]) * Fraction(b["n"], b["d"])
        try:
            direct = obj.rate(f.numerator / f.denominator)
            pc, pd_ = _proj(cur, game), _proj(direct, game)
            for i, (x, y) in enumerate(zip(pc, pd_)):
                out.append({"id": f"{rid}/compose.{i}", "op": "compose", "cls": f"{game}.compose", "game": game, "exc": "",
                            "chained": x, "direct": y, "meta_chained": proj_meta(cur, game, i),
                            "meta_direct": proj_meta(direct, game, i)})
        except Exception as e:
            out.append({"id": f"{rid}/compose", "op": "compose", "cls": f"{game}.compose", "game": game,
                        "exc": exc_name(e) if not isinstance(e, ProjectionError) else "Projection:" + str(e)})
    # write the rated chart and read it back
    if game in ("osu", "qua", "sm") and shape[0] and cur is not None and not (game == "sm" and shape[3]):
        rec = {"id": f"{rid}/io", "op": "roundtrip", "cls": f"{game}.roundtrip", "game": game, "exc": "", "tol": 1000}
        try:
            back = _io(cur, game)
            pr, pb = _proj(cur, game), _proj(back, game)
            for i, (x, y) in enumerate(zip(pr, pb)):
                mr, mb = proj_meta(cur, game, i), proj_meta(back, game, i)
                # compare the lists both sides have, rows in time order (a file has no row order)
                names = [l["name"] for l in x if any(l2["name"] == l["name"] for l2 in y)]
                xs = [_sorted(l) for l in x if l["name"] in names]
                ys = [_sorted(l) for l in y if l["name"] in names]
                xs, ys = _only_times(xs), _only_times(ys)
                out.append(dict(rec, id=f"{rec['id']}.{i}", rated=xs, back=ys, meta_rated=mr, meta_back=mb))
            if len(pr) != len(pb):
                out.append(dict(rec, exc="ChartCountChanged"))
        except ProjectionError as e:
            out.append(dict(rec, exc="Projection:" + str(e)))
        except Exception as e:
            out.append(dict(rec, exc=exc_name(e)))
    return out


def _sorted(l):
    return dict(l, rows=sorted(l["rows"], key=lambda r: (r["v"].get("offset", 0), r["v"].get("column", 0))))


def _only_times(ls):
    """for the round trip only the timeline is compared: offset/length/column/bpm."""
    out = []
    for l in ls:
        rows = [{"v": {k: v for k, v in r["v"].items() if k in ("offset", "length", "column", "bpm")}, "x": []}
                for r in l["rows"]]
        out.append({"name": l["name"], "cls": l["cls"], "rows": rows})
    return out
