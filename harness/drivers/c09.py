"""C09 driver: source text/bytes -> read -> convert -> write -> target text, lexed on both ends."""
from __future__ import annotations

from harness import bms_text, ojn_bytes, osu_text, qua_text, sm_text
from harness.common import exc_name, rng
from harness.drivers import c08

BME_CH = {0: "16", 1: "11", 2: "12", 3: "13", 4: "14", 5: "15", 6: "18", 7: "19"}
SM_TYPE = {4: "dance-single", 7: "kb7-single", 6: "dance-solo", 8: "dance-double", 3: "dance-threepanel"}


def abstract(r, keys, offset_first):
    """an abstract chart on the quarter-beat grid of a 500 ms beat (times in ms), highest column occupied"""
    bl = 500.0
    t0 = 1000.0 if offset_first else 0.0
    cells = set()
    notes = []
    for _ in range(r.randint(2, 8)):
        c = r.randrange(keys)
        q = r.randrange(0, 32)            # quarter beats: two measures
        if (c, q) in cells:
            continue
        if r.random() < 0.3:
            ln = r.choice([1, 2, 4])
            if any((c, x) in cells for x in range(q, q + ln + 1)) or q + ln >= 32:
                continue
            if any(n["c"] == c and n["q"] < q + ln and q < n["q"] + n["ln"] for n in notes):
                continue
            for x in range(q, q + ln + 1):
                cells.add((c, x))
            notes.append({"c": c, "q": q, "ln": ln})
        else:
            if any(n["c"] == c and n["q"] <= q <= n["q"] + n["ln"] for n in notes):
                continue
            cells.add((c, q))
            notes.append({"c": c, "q": q, "ln": 0})
    if not any(n["c"] == keys - 1 for n in notes):
        q = next(x for x in range(32) if (keys - 1, x) not in cells)
        notes.append({"c": keys - 1, "q": q, "ln": 0})
    # tempo plan: (quarter beat, beat length in ticks); the third point returns to the first value
    plan = [(0, 50000), (16, 25000), (24, 50000)][: r.choice([1, 1, 2, 3])]
    return {"keys": keys, "bl": bl, "t0": t0, "notes": sorted(notes, key=lambda n: n["q"]), "plan": plan,
            "shuffle_tps": r.random() < 0.4, "mixed_types": r.random() < 0.4, "levels_differ": r.random() < 0.5}


def _time(a, q):
    """ms of quarter-beat q through the tempo plan"""
    t, plan = a["t0"], a["plan"]
    for k, (q0, bl) in enumerate(plan):
        q1 = plan[k + 1][0] if k + 1 < len(plan) else None
        if q1 is None or q < q1:
            return t + (q - q0) * bl / 400.0
        t += (q1 - q0) * bl / 400.0
    return t


def source(game, a, r):
    """(what the library reads, tokens by the independent lexer, layout name)"""
    K = a["keys"]
    if game == "osu":
        objs = []
        for n in a["notes"]:
            t = int(round(_time(a, n["q"]) * 1000))
            hold = n["ln"] > 0
            objs.append({"x": (512 * n["c"] + 256) // K, "y": 192, "t": t, "type": 128 if hold else 1, "hs": 0,
                         "end": int(round(_time(a, n["q"] + n["ln"]) * 1000)) if hold else 0, "ss": 0, "as": 0, "ci": 0, "vol": 0,
                         "file": "", "arity": 6 if hold else 5})
        tps = [{"t": int(a["t0"] * 1000), "code": 50000, "meter": r.choice([4, 3, 7]), "ss": 0, "si": 0, "vol": 100, "uninh": 1, "fx": 0, "arity": 8}]
        for q0, bl in a["plan"][1:]:
            tps.append({"t": int(_time(a, q0) * 1000), "code": bl, "meter": 4, "ss": 0, "si": 0, "vol": 100, "uninh": 1, "fx": 0, "arity": 8})
        from harness.drivers.c01 import meta_lines
        if a.get("shuffle_tps"):
            tps = tps[1:] + tps[:1]          # timing-point lines out of time order
        lines = osu_text.concretize({"objs": objs, "tps": tps, "samples": [], "bg": "bg.png"}, meta_lines(K, r, 1))
        return lines, osu_text.lex(lines), ""
    if game == "qua":
        I = lambda v: {"tag": "int", "num": int(round(v * 1000))}
        A = {"tag": "absent", "num": 0}
        objs = [{"st": I(_time(a, n["q"])), "lane": I(n["c"] + 1), "end": I(_time(a, n["q"] + n["ln"])) if n["ln"] else A,
                 "ks": {"tag": "list", "num": 0}} for n in a["notes"]]
        tps = [{"st": I(a["t0"]), "bpm": {"tag": "float", "num": 12000}}]
        for q0, bl in a["plan"][1:]:
            tps.append({"st": I(_time(a, q0)), "bpm": {"tag": "float", "num": 6000000 * 100 // bl}})
        if a.get("shuffle_tps"):
            tps = tps[1:] + tps[:1]
        text = qua_text.concretize({"objs": objs, "tps": tps, "svs": []},
                                   {"Title": "T", "Artist": "A", "Creator": "C", "DifficultyName": "D", "Mode": f"Keys{K}"})
        return text, qua_text.tokens(text), ""
    if game == "sm":
        objs = []
        for n in a["notes"]:
            objs.append({"k": "2" if n["ln"] else "1", "c": n["c"], "i": n["q"], "j": n["q"] + n["ln"]})
        scn = {"type": SM_TYPE[K], "rows": [16, 16], "objs": objs, "off": int(a["t0"] * 100),
               "bpms": [{"p48": q0 * 12, "bl": bl} for q0, bl in a["plan"]]}
        # a second, different chart of the same type in the set
        # (for some, of another chart type with another key count)
        k2 = K if not a.get("mixed_types") else (7 if K == 4 else 4)
        grid2 = [["0"] * k2 for _ in range(8)]
        grid2[1][0], grid2[5][k2 - 1] = "1", "1"
        text = sm_text.concretize(scn, extra_charts=[(SM_TYPE[k2], [grid2[:4], grid2[4:]], "Easy", "2")])
        return text, sm_text.lex(text), ""
    if game == "bms":
        lines = []
        for n in a["notes"]:
            m, i = divmod(n["q"], 16)
            lines.append({"m": m, "ch": BME_CH[n["c"]], "d": 16, "objs": [{"i": i, "id": "01", "val": 0}]})
            if n["ln"]:
                m2, i2 = divmod(n["q"] + n["ln"], 16)
                lines.append({"m": m2, "ch": BME_CH[n["c"]], "d": 16, "objs": [{"i": i2, "id": "ZZ", "val": 0}]})
        for q0, bl in a["plan"][1:]:
            lines.append({"m": q0 // 16, "ch": "08", "d": 2, "objs": [{"i": (q0 % 16) // 8, "id": "T", "val": bl}]})
        f = {"bpm0": 50000, "lnobj": "ZZ", "wavs": [{"id": "01", "file": "a.wav"}], "lines": lines}
        txt = bms_text.concretize(f, r, merge=True, shuffle=False)
        return txt, bms_text.lex(txt), "BME"
    if game == "o2j":
        lvl = []
        for n in a["notes"]:
            m, i = divmod(n["q"], 16)
            lvl.append({"m": m, "ch": n["c"] + 2, "n": 16, "evs": [{"i": i, "kind": 2 if n["ln"] else 0, "vol": 3, "pan": 8, "bl": 0}]})
            if n["ln"]:
                m2, i2 = divmod(n["q"] + n["ln"], 16)
                lvl.append({"m": m2, "ch": n["c"] + 2, "n": 16, "evs": [{"i": i2, "kind": 3, "vol": 3, "pan": 8, "bl": 0}]})
        tev = {}
        for q0, bl in a["plan"][1:]:
            tev.setdefault(q0 // 16, []).append({"i": (q0 % 16) // 8, "kind": 0, "vol": 0, "pan": 0, "bl": bl})
        for m, evs in tev.items():
            lvl.append({"m": m, "ch": 1, "n": 2, "evs": evs})
        lvl.sort(key=lambda p: (p["m"], p["ch"]))
        # the three difficulties carry different tempo tracks: the first event only / all events / none
        notes_only = [p for p in lvl if p["ch"] != 1]
        first_only = notes_only + ([{"m": min(tev), "ch": 1, "n": 2, "evs": tev[min(tev)][:1]}] if tev else [])
        first_only.sort(key=lambda p: (p["m"], p["ch"]))
        data = ojn_bytes.encode([first_only, lvl, notes_only] if a.get("levels_differ") else [lvl, lvl, lvl], 50000)
        return data, ojn_bytes.decode(data), ""
    raise ValueError(game)


def read_source(game, data):
    if game == "osu":
        from reamber.osu.OsuMap import OsuMap
        return OsuMap.read(data)
    if game == "qua":
        from reamber.quaver.QuaMap import QuaMap
        return QuaMap.read(data)
    if game == "sm":
        from reamber.sm.SMMapSet import SMMapSet
        return SMMapSet.read(data)
    if game == "bms":
        from reamber.bms.BMSMap import BMSMap
        from reamber.bms.BMSChannel import BMSChannel
        return BMSMap.read(data, BMSChannel.BME)
    from reamber.o2jam.O2JMapSet import O2JMapSet
    return O2JMapSet.read(data)


def write_target(game, obj):
    """target object -> tokens of the written file"""
    if game == "osu":
        return osu_text.lex(obj.write())
    if game == "qua":
        return qua_text.tokens(obj.write())
    if game == "sm":
        return sm_text.lex(obj.write())
    from reamber.bms.BMSChannel import BMSChannel
    return bms_text.lex(obj.write(BMSChannel.BME))


def exec_pair(scn):
    r = rng("c09-" + scn["id"])
    conv = scn["conv"]
    sg, tg, is_set, kind, has_shift = c08.CONVERTERS[conv]
    # o2jam is 7 keys; the scratch lane of BME is column 0, so O2J->BMS shifts by one
    keys = 7 if sg == "o2j" else scn["keys"]
    shift = 1 if conv == "O2JToBMS" else 0
    a = abstract(r, keys, scn["offset_first"] and sg not in ("bms", "o2j"))
    rec = {"id": f"{scn['id']}/{conv}", "op": "pipeline", "cls": f"{conv}.{'t0' if a['t0'] else 'zero'}", "exc": "", "src_game": sg,
           "tgt_game": tg, "src": {}, "tgt": [], "nsrc": 1, "shift": shift, "src_layout": "", "tgt_layout": "BME" if tg == "bms" else ""}
    try:
        data, rec["src"], rec["src_layout"] = source(sg, a, r)
        obj = read_source(sg, data)
        rec["nsrc"] = len(obj.maps) if hasattr(obj, "maps") else 1
        res = c08.call_converter(conv, obj, shift)
        if kind == "one":
            outs = [res]
        elif kind == "list":
            outs = list(res)
        elif kind == "set":
            outs = [res]
        else:
            outs = list(res)
        if scn.get("twice"):
            # writing is not supposed to change the chart: the second file is the one judged
            for o in outs:
                write_target(tg, o)
            rec["twice"] = True
        toks = [write_target(tg, o) for o in outs]
        if tg == "sm":
            # a written set holds every chart: one token file per chart for the comparison
            flat = []
            for tkn in toks:
                for ci in range(len(tkn["charts"])):
                    flat.append(dict(tkn, charts=[tkn["charts"][ci]]))
            toks = flat
        rec["tgt"] = toks
    except Exception as e:
        rec["exc"] = exc_name(e)
    return [rec]
