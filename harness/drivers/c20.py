"""C20 driver: Pattern.group and PtnCombo.combinations with the filter catalogue."""
from __future__ import annotations

from harness.common import exc_name, rng

U = 100.0   # one model time unit in ms
KEYS = 4


def _types():
    from reamber.base.Hit import Hit
    from reamber.base.Hold import Hold, HoldTail
    return {"hit": Hit, "hold": Hold, "tail": HoldTail}


def _kind(t):
    from reamber.base.Hit import Hit
    from reamber.base.Hold import Hold, HoldTail
    if issubclass(t, HoldTail):
        return "tail"
    if issubclass(t, Hold):
        return "hold"
    if issubclass(t, Hit):
        return "hit"
    return "other"


def _rows(ar):
    return [{"t": int(round(float(x["offset"]) / U * 1000)) , "c": int(x["column"]), "k": _kind(x["type"])} for x in ar]


def _norm(rows):
    # model units: times x1000/U so that integer model times stay integers (x1000 keeps halves exact)
    return rows


# filter catalogue: (kind, base, opts, exclude) -- parameters only; TLC expands them
CHORD = [None,
         {"base": [[1, 1]], "opts": [], "exclude": False}, {"base": [[2, 1]], "opts": ["ANY_ORDER"], "exclude": False},
         {"base": [[2, 2]], "opts": ["AND_LOWER"], "exclude": False}, {"base": [[1, 2]], "opts": ["AND_HIGHER"], "exclude": False},
         {"base": [[1, 3]], "opts": [], "exclude": False}, {"base": [[1, 1]], "opts": [], "exclude": True},
         {"base": [[2, 1]], "opts": ["ANY_ORDER", "AND_LOWER"], "exclude": False}]
CHORD3 = [None, {"base": [[1, 1, 1]], "opts": [], "exclude": False}, {"base": [[2, 1, 1]], "opts": ["ANY_ORDER"], "exclude": False},
          {"base": [[1, 2, 3]], "opts": [], "exclude": False}, {"base": [[2, 2, 1]], "opts": ["AND_LOWER"], "exclude": False}]
COMBO = [None,
         {"base": [[0, 1]], "opts": [], "exclude": False}, {"base": [[0, 1]], "opts": ["REPEAT"], "exclude": False},
         {"base": [[0, 1]], "opts": ["HMIRROR"], "exclude": False}, {"base": [[0, 1]], "opts": ["VMIRROR"], "exclude": False},
         {"base": [[0, 1]], "opts": ["REPEAT", "HMIRROR", "VMIRROR"], "exclude": False},
         {"base": [[0, 0]], "opts": ["REPEAT"], "exclude": True}, {"base": [[0, 1], [2, 0]], "opts": ["REPEAT"], "exclude": False},
         {"base": [[0, 2]], "opts": ["REPEAT", "VMIRROR"], "exclude": True}]
COMBO3 = [None, {"base": [[0, 1, 2]], "opts": ["REPEAT"], "exclude": False}, {"base": [[0, 1, 0]], "opts": ["REPEAT", "HMIRROR"], "exclude": False},
          {"base": [[0, 0, 0]], "opts": ["REPEAT"], "exclude": True}, {"base": [[0, 1, 2], [1, 0, 0]], "opts": ["REPEAT", "VMIRROR"], "exclude": False}]
TYPE = [None,
        {"base": [["hit", "hit"]], "opts": [], "exclude": False}, {"base": [["hit", "hold"]], "opts": ["MIRROR"], "exclude": False},
        {"base": [["hold", "tail"]], "opts": ["ANY_ORDER"], "exclude": False}, {"base": [["hit", "tail"]], "opts": [], "exclude": True}]
TYPE3 = [None, {"base": [["hit", "hit", "hold"]], "opts": ["ANY_ORDER"], "exclude": False},
         {"base": [["hit", "hold", "tail"]], "opts": ["MIRROR"], "exclude": False},
         {"base": [["hit", "hold", "tail"]], "opts": ["ANY_ORDER"], "exclude": False},      # three distinct kinds: all six orders
         {"base": [["hold", "tail", "hit"]], "opts": ["ANY_ORDER"], "exclude": True}]


def _mk_filters(size, ch, co, ty, KEYS=4):
    from reamber.algorithms.pattern.filters.PtnFilter import PtnFilterChord, PtnFilterCombo, PtnFilterType
    T = _types()
    fch = fco = fty = None
    if ch:
        o = 0
        for name in ch["opts"]:
            o |= getattr(PtnFilterChord.Option, name)
        fch = PtnFilterChord.create(ch["base"], keys=KEYS, options=o, exclude=ch["exclude"]).filter
    if co:
        o = 0
        for name in co["opts"]:
            o |= getattr(PtnFilterCombo.Option, name)
        fco = PtnFilterCombo.create(co["base"], keys=KEYS, options=o, exclude=co["exclude"]).filter
    if ty:
        o = 0
        for name in ty["opts"]:
            o |= getattr(PtnFilterType.Option, name)
        fty = PtnFilterType.create([[T[k] for k in row] for row in ty["base"]], options=o, exclude=ty["exclude"]).filter
    return fch, fco, fty


def _fdesc(f, KEYS=4):
    if not f:
        return {"on": False}
    return {"on": True, "base": f["base"], "keys": KEYS, "opts": f["opts"], "exclude": f["exclude"]}


def exec_ptn(scn):
    from reamber.algorithms.pattern.Pattern import Pattern
    from reamber.algorithms.pattern.combos.PtnCombo import PtnCombo
    r = rng("c20-" + scn["id"])
    T = _types()
    out = []
    notes = scn["notes"]
    KEYS = scn.get("keys", 4)
    h = None if scn["h"] < 0 else scn["h"]
    rec = {"id": scn["id"] + "/group", "op": "group", "cls": f"group.{'via_lists' if scn.get('via_lists') else 'direct'}",
           "exc": "", "v": int(scn["v"] * 1000), "h": scn["h"], "jack": scn["jack"], "notes": [], "groups": []}
    groups = None
    try:
        if scn.get("via_lists"):
            p = _from_lists(notes)
        else:
            order = list(range(len(notes)))
            r.shuffle(order)     # construction order is irrelevant: Pattern sorts by time
            # some charts sit a fraction of a millisecond off the whole milliseconds, some before time 0 as well
            shift = {1: 0.390625, 2: -1000.390625}.get(scn.get("shift", 0), 0.0)
            p = Pattern(cols=[notes[i]["c"] for i in order], offsets=[notes[i]["t"] * U + shift for i in order],
                        types=[T[notes[i]["k"]] for i in order])
        rec["notes"] = _rows(p.df.to_records(index=False))
        if scn.get("regroup"):
            # history: the same object was grouped before with other parameters (the other jack rule, then another window)
            p.group(v_window=scn["v"] * U, h_window=h, avoid_jack=not scn["jack"])
            p.group(v_window=(scn["v"] + 1) * U, h_window=h, avoid_jack=scn["jack"])
            rec["cls"] += ".regrouped"
        groups = p.group(v_window=scn["v"] * U, h_window=h, avoid_jack=scn["jack"])
        rec["groups"] = [_rows(g) for g in groups]
    except Exception as e:
        rec["exc"] = exc_name(e)
    out.append(rec)
    if groups is None:
        return out
    for n, (size, ch, co, ty) in enumerate(scn["filters"]):
        crec = {"id": f"{scn['id']}/combos{n}", "op": "combos", "cls": f"combos.size{size}", "exc": "", "n": size,
                "groups": rec["groups"], "chord": _fdesc(ch, KEYS), "combo": _fdesc(co, KEYS), "type": _fdesc(ty, KEYS), "out": []}
        try:
            fch, fco, fty = _mk_filters(size, ch, co, ty, KEYS)
            res = PtnCombo(groups).combinations(size=size, chord_filter=fch, combo_filter=fco, type_filter=fty)
            flat = []
            for ar in res:
                for row in ar:
                    flat.append(_rows(row))
            crec["out"] = flat
        except Exception as e:
            crec["exc"] = exc_name(e)
        out.append(crec)
    # EXTENSION beyond C20's statement: the two shipped templates, each a fixed choice of the three filters.  Every call is
    # judged twice with the spec's own filter expansion: against the filters the code really builds (as_code) and against
    # the filters the docstring describes (as_documented); rejections are observations.
    KINDS = ["hit", "hold", "tail"]
    no_tail = {"base": [["tail", k] for k in KINDS], "opts": ["ANY_ORDER"], "exclude": True}
    no_jack = {"base": [[0, 0]], "opts": ["REPEAT"], "exclude": True}
    tn = 0
    for (p, s_, low, jack) in scn.get("templates", []):
        code_ch = {"base": [[p, s_]], "opts": ["ANY_ORDER", "AND_LOWER"] if low else [], "exclude": False}
        doc_ch = {"base": [[p, s_]], "opts": ["ANY_ORDER"] + (["AND_LOWER"] if low else []), "exclude": False}
        res_rows, exc = [], ""
        try:
            res = PtnCombo(groups).template_chord_stream(primary=p, secondary=s_, keys=KEYS, and_lower=low, include_jack=jack)
            for ar in res:
                for row in ar:
                    res_rows.append(_rows(row))
        except Exception as e:
            exc = exc_name(e)
        for how, ch in (("as_code", code_ch), ("as_documented", doc_ch)):
            out.append({"id": f"{scn['id']}/tpl{tn}.{how}", "op": "combos", "cls": f"ext.template.chord_stream.{how}", "ext": True, "exc": exc,
                        "n": 2, "groups": rec["groups"], "chord": _fdesc(ch, KEYS), "combo": _fdesc(None if jack else no_jack, KEYS),
                        "type": _fdesc(no_tail, KEYS), "out": res_rows})
        tn += 1
    if scn.get("templates"):
        res_rows, exc = [], ""
        try:
            for ar in PtnCombo(groups).template_jacks(minimum_length=2, keys=KEYS):
                for row in ar:
                    res_rows.append(_rows(row))
        except Exception as e:
            exc = exc_name(e)
        out.append({"id": f"{scn['id']}/jacks2", "op": "combos", "cls": "ext.template.jacks", "ext": True, "exc": exc, "n": 2,
                    "groups": rec["groups"], "chord": _fdesc(None, KEYS), "combo": _fdesc({"base": [[0, 0]], "opts": ["REPEAT"], "exclude": False}, KEYS),
                    "type": _fdesc(no_tail, KEYS), "out": res_rows})
    return out


def _from_lists(notes):
    """the same note set through HitList / HoldList objects (tails generated by the library)"""
    from reamber.algorithms.pattern.Pattern import Pattern
    from reamber.base.lists.notes.HitList import HitList
    from reamber.base.lists.notes.HoldList import HoldList
    from reamber.base.Hit import Hit
    from reamber.base.Hold import Hold
    hits = [Hit(offset=x["t"] * U, column=x["c"]) for x in notes if x["k"] == "hit"]
    holds = [Hold(offset=x["t"] * U, column=x["c"], length=U) for x in notes if x["k"] == "hold"]
    return Pattern.from_note_lists([HitList(hits), HoldList(holds)], include_tails=True)


def pick_filters(r, tier):
    fs = []
    k = 3 if tier == "quick" else 6
    for _ in range(k):
        size = r.choice([2, 2, 3])
        if size == 2:
            fs.append((2, r.choice(CHORD), r.choice(COMBO), r.choice(TYPE)))
        else:
            fs.append((3, r.choice(CHORD3), r.choice(COMBO3), r.choice(TYPE3)))
    fs.append((r.choice([2, 3, 4]), None, None, None))
    return fs


def random_scenarios(n, tier):
    r = rng("c20-random")
    out = []
    for i in range(n):
        notes = sorted(({"t": r.choice([0, 0.5, 1, 1.5, 2, 3, 4, 6]), "c": r.randint(0, 3), "k": r.choice(["hit", "hit", "hold", "tail"])}
                        for _ in range(r.randint(1, 9))), key=lambda x: x["t"])
        sc7 = {}
        if i % 5 >= 3:
            # seven keys, groups that repeat a column (jacks allowed), size-3 combinations through many-row REPEAT filters
            notes = sorted(({"t": r.choice([0, 0.5, 1, 2, 3, 4]), "c": r.choice([0, 1, 1, 2, 5, 6]), "k": r.choice(["hit", "hit", "hold"])}
                            for _ in range(r.randint(5, 9))), key=lambda x: x["t"])
            sc7 = {"keys": 7}
        out.append({"id": f"r{i}", "notes": notes, "v": r.choice([0, 0.5, 1, 2]), "h": r.choice([-1, 0, 1, 2]) if not sc7 else -1,
                    "jack": r.random() < 0.5 and not sc7, **sc7, "filters": pick_filters(r, tier), "via_lists": i % 4 == 0, "regroup": i % 3 == 1, "shift": (i // 2) % 3,
                    "templates": [(2, 1, False, False), (2, 1, True, False), (3, 2, True, True), (1, 1, False, True)] if i % 2 == 0 else []})
    return out
