"""C05 driver: BMSMap -> bytes for a channel layout; the bytes are lexed independently and judged by TLC."""
from __future__ import annotations

from harness.bms_text import T, lex
from harness.common import exc_name, rng
from harness.drivers.c04 import layout_of, proj_chart
from harness.project import ProjectionError


def build(scn, r):
    from harness.charts import new_map
    hits = [{"offset": h["t"] / T, "column": h["c"], "sample": h["sample"].encode()} for h in scn["hits"]]
    holds = [{"offset": h["t"] / T, "column": h["c"], "length": h["n"] / T, "sample": h["sample"].encode()} for h in scn["holds"]]
    bpms = [{"offset": b["t"] / T, "bpm": 60000.0 * T / b["bl"], "metronome": 4} for b in scn["tempo"]]
    if scn.get("shuffle"):
        r.shuffle(hits)
        r.shuffle(holds)
        bpms = bpms[1:] + bpms[:1]      # tempo rows stored out of time order
    m = new_map("bms", {"hits": hits, "holds": holds, "bpms": bpms})
    m.title, m.artist, m.version = b"Title", b"Artist", b"7"
    m.ln_end_channel = b"ZZ"
    m.samples = {b"01": b"a.wav", b"02": b"b.wav"} if not scn.get("unknown_samples") else {}
    m.misc = {b"PLAYER": b"1"}
    return m


def exec_write(scn):
    r = rng("c05-" + scn["id"])
    rec = {"id": scn["id"] + "/write", "op": "write", "cls": f"bms.write.{scn['layout']}.{scn.get('kind', 'model')}",
           "layout": scn["layout"], "exc": "", "file": {}, "chart": {}, "on_grid": scn.get("on_grid", True)}
    try:
        m = build(scn, r)
        if scn.get("rewrite"):
            # history: written once, tempo values edited in place, written again; the second file is judged
            m.write(layout_of(scn["layout"]))
            m.bpms.bpm = m.bpms.bpm * 2
            rec["cls"] += ".rewrite"
        rec["chart"] = proj_chart(m)
        via = scn.get("via", 0)
        if via == 1:
            import os
            import tempfile
            fd, path = tempfile.mkstemp(suffix=".bms")
            os.close(fd)
            try:
                m.write_file(path, note_channel_config=layout_of(scn["layout"]))
                with open(path, "rb") as fh:
                    data = fh.read()
            finally:
                os.unlink(path)
        else:
            data = m.write(layout_of(scn["layout"]))
        rec["file"] = lex(data)
    except ProjectionError as e:
        rec["exc"] = "Projection:" + str(e)
    except Exception as e:
        rec["exc"] = exc_name(e)
    return [rec]


LAYOUT_COLS = {"BMS": 14, "BME": 16, "PMS": 9, "PMS_BME": 18, "PMS_5B": 5}


def random_scenarios(n, tier):
    """charts beyond the model: many objects on 1/2..1/96 grids or off grid, many tempo points on measure lines"""
    r = rng("c05-random")
    out = []
    for i in range(n):
        lay = r.choice(list(LAYOUT_COLS))
        ncol = LAYOUT_COLS[lay]
        ntp = r.choice([1, 2, 3, 5, 40]) if tier == "quick" else r.choice([1, 2, 3, 5, 40, 300])
        if i % 150 == 7:
            ntp = 400 + i % 7            # more distinct #BPMxx ids than two base-16 digits (and than 359) can name
        bls = [r.choice([50000, 25000, 40000, 37500, 60000]) for _ in range(ntp)]
        if i % 9 == 3 and ntp >= 2:
            bls[1] = 10000               # a large upward tempo jump (600 bpm)
        tempo, t = [], 0
        for k, bl in enumerate(bls):
            tempo.append({"t": t, "bl": bl})
            t += 4 * bl * r.randint(1, 2)          # whole measures
        end = t + 4 * bls[-1]
        on_grid = i % 3 != 0
        hits, holds = [], []
        lane = {}                      # column -> list of (start, end) times already taken
        gap = 2 * max(bls) // 192 + 20   # two grid slots of the slowest tempo apart: no (lane, slot) collisions

        def free(c, a, b_):
            return all(b_ + gap < x or a - gap > y for x, y in lane.get(c, []))
        for _ in range(r.randint(1, 30)):
            # choose a segment, a measure in it, a grid position
            k = r.randrange(ntp)
            seg_len = (tempo[k + 1]["t"] - tempo[k]["t"]) if k + 1 < ntp else 4 * bls[k]
            g = r.choice([1, 2, 3, 4, 6, 8, 12, 16, 24, 48])
            j = r.randrange(0, max(1, seg_len * g // (4 * bls[k])))
            tt = tempo[k]["t"] + (4 * bls[k] * j) // g
            if not on_grid:
                # a few ticks off, 1/400 beat late, or 0.0045 beat before the next beat (rounds up to it)
                tt += r.choice([0, 7, -7, bls[k] // 400, -(bls[k] * 9) // 2000])
            c = r.randrange(ncol)
            if tt < 0:
                continue
            if r.random() < 0.25:
                n_ = (4 * bls[k]) // r.choice([2, 4, 8])
                if not free(c, tt, tt + n_):
                    continue
                lane.setdefault(c, []).append((tt, tt + n_))
                holds.append({"t": tt, "c": c, "n": n_, "sample": r.choice(["a.wav", "b.wav", "zz.wav"])})
            else:
                if not free(c, tt, tt):
                    continue
                lane.setdefault(c, []).append((tt, tt))
                hits.append({"t": tt, "c": c, "sample": r.choice(["a.wav", "b.wav", "zz.wav"])})
        if not on_grid and ntp >= 2:
            # a hit 0.9 ms before a tempo change (it belongs to the old tempo's grid)
            c = r.randrange(ncol)
            tt = tempo[1]["t"] - 90
            if free(c, tt, tt):
                lane.setdefault(c, []).append((tt, tt))
                hits.append({"t": tt, "c": c, "sample": "a.wav"})
        if i % 40 == 11:
            # late in a long chart: notes 1/64 beat apart in different lanes around 400 s
            tempo, on_grid, holds = [{"t": 0, "bl": 25000}], True, []
            hits = [{"t": 1600 * 25000 + (j * 25000) // 64 * 1, "c": j % ncol, "sample": "a.wav"} for j in range(0, 6) if (j * 25000) % 64 == 0 or True]
            hits = [dict(h, t=1600 * 25000 + (j * 25000 * 3) // 192) for j, h in enumerate(hits)]
        out.append({"id": f"r{i}", "layout": lay, "hits": hits, "holds": holds, "tempo": tempo, "on_grid": on_grid,
                    "kind": "random", "rewrite": i % 6 == 4, "shuffle": i % 2 == 0, "unknown_samples": i % 5 == 0, "via": i % 4 == 1})
    return out
