"""C14 driver: run every value-returning operation on charts of every game and record the full
projection (values, columns, dtypes, row labels, metadata) of each input before and after; for
results documented as copies, modify the result in place and project the input once more."""
from __future__ import annotations

import copy as _copy

from harness.charts import map_class, mapset_class, new_map
from harness.common import exc_name, rng
from harness.drivers import c08
from harness.project import sval


def full_list(tl):
    df = tl.df
    return {"cls": type(tl).__name__, "cols": [str(c) for c in df.columns], "dtypes": [str(t) for t in df.dtypes],
            "labels": [sval(x) for x in df.index],
            "rows": [[sval(v) for v in df.iloc[i].tolist()] for i in range(len(df))]}


def _attr(v):
    """every attribute as the same shape [kind, canonical text]: TLC cannot compare values of different shapes (a field
    that changes from "" to [] must be a difference, not an evaluation error)"""
    import json
    from reamber.base.lists.TimedList import TimedList
    import pandas as pd
    if isinstance(v, TimedList):
        return {"kind": "timedlist", "val": json.dumps(full_list(v), sort_keys=True, default=str)}
    if isinstance(v, pd.DataFrame):
        return {"kind": "df", "val": v.to_json()}
    if isinstance(v, dict):
        return {"kind": "dict", "val": json.dumps(sorted((sval(k), str(x)) for k, x in v.items()))}
    if isinstance(v, (list, tuple)):
        return {"kind": "list", "val": json.dumps([str(x) for x in v])}
    return {"kind": "scalar", "val": sval(v)}


def full_proj(obj):
    from reamber.base.lists.TimedList import TimedList
    if isinstance(obj, TimedList):
        return full_list(obj)
    if hasattr(obj, "maps"):
        return {"maps": [full_proj(m) for m in obj.maps],
                "meta": [[k, _attr(v)] for k, v in sorted(vars(obj).items()) if k != "maps"]}
    return {"lists": [[k, full_list(v)] for k, v in obj.objs.items()],
            "meta": [[k, _attr(v)] for k, v in sorted(vars(obj).items()) if k != "objs"]}


def poke(res):
    """Modify every mutable component of a result in place."""
    from reamber.base.lists.TimedList import TimedList
    import pandas as pd
    if res is None:
        return
    if isinstance(res, (list, tuple)):
        for x in res:
            poke(x)
        return
    if isinstance(res, TimedList):
        df = res.df
        if len(df) and "offset" in df.columns:
            df.iloc[0, list(df.columns).index("offset")] = 987654.0
        try:
            df["poked"] = 1
        except Exception:
            pass
        return
    if hasattr(res, "maps"):
        for m in res.maps:
            poke(m)
    if hasattr(res, "objs"):
        for l in res.objs.values():
            poke(l)
    for k, v in list(vars(res).items()) if hasattr(res, "__dict__") else []:
        if k in ("objs", "maps"):
            continue
        if isinstance(v, TimedList):
            poke(v)
        elif isinstance(v, dict):
            v["__poked__"] = 1
        elif isinstance(v, list):
            v.append("__poked__")
        elif isinstance(v, pd.DataFrame) and len(v.columns):
            v["poked"] = 1


def rich_content(game, r, keys=4):
    c = c08.src_content(game, 2, keys)
    if game == "osu":
        for i, h in enumerate(c["hits"]):
            h["hitsound_set"] = [0, 2, 8, 4][i % 4]
            h["volume"] = 10 * (i % 3)
    # unsorted tempo rows and duplicate offsets make order-sensitive shortcuts visible
    c["bpms"] = [{"offset": 0.0, "bpm": 120.0, "metronome": 4}, {"offset": 4000.0, "bpm": 180.0, "metronome": 4},
                 {"offset": 2000.0, "bpm": 120.0, "metronome": 4}]
    return c


def build(game, r, variant):
    m = new_map(game, rich_content(game, r))
    if game == "osu":
        from reamber.osu.lists.OsuSampleList import OsuSampleList
        from reamber.osu.OsuSample import OsuSample
        m.circle_size = 4
        m.title, m.artist, m.creator, m.version = "T", "A", "C", "V"
        m.samples = OsuSampleList([OsuSample(offset=500.0, sample_file="s.wav", volume=40)])
    if game == "qua":
        from reamber.quaver.QuaMapMeta import QuaMapMode
        m.mode = QuaMapMode.KEYS_4
    if game == "bms":
        m.title, m.artist, m.version = b"T", b"A", b"V"
        m.misc = {b"PLAYER": b"1"} if hasattr(m, "misc") else None
    if game == "sm":
        m.chart_type = "dance-single"
    if variant == 2:
        # history: a rate change by 1 (values unchanged, integer columns widened to float by the stack write-back)
        m = m.rate(1.0)
    if variant == 1:
        # non-default labels / unsorted rows
        for name in list(m.objs):
            if len(m.objs[name]) >= 2:
                m.objs[name] = m.objs[name].sorted(reverse=True)
    if game in ("sm", "o2j"):
        n = 3 if game == "o2j" else 2
        others = [new_map(game, rich_content(game, r)) for _ in range(n - 1)]
        for o in others:
            if game == "sm":
                o.chart_type = "dance-single"
        ms_ = mapset_class(game)(maps=[m] + others)
        ms_.title, ms_.artist = "T", "A"
        if game == "sm":
            ms_.credit, ms_.offset = "C", 0.0
        else:
            ms_.creator, ms_.level = "C", [1, 2, 3, 0]
        return ms_
    return m


def ops_for(game, obj):
    """(name, callable(obj) -> result, documented copy?) for the game."""
    from reamber.algorithms.generate.full_ln import full_ln
    from reamber.algorithms.utils.dominant_bpm import dominant_bpm
    from reamber.algorithms.analysis.scroll_speed import scroll_speed
    from reamber.algorithms.pattern.Pattern import Pattern
    from reamber.algorithms.pattern.combos.PtnCombo import PtnCombo
    ch = (lambda o: o.maps[0]) if hasattr(obj, "maps") else (lambda o: o)
    ops = [("rate", lambda o: o.rate(1.5), True), ("rate_by_1", lambda o: o.rate(1.0), True),
           ("deepcopy", lambda o: o.deepcopy(), True),
           ("stack", lambda o: ch(o).stack(), False),
           ("full_ln", lambda o: full_ln(ch(o), gap=100, ln_as_hit_thres=50), True),
           ("dominant_bpm", lambda o: dominant_bpm(ch(o)), False),
           ("scroll_speed", lambda o: scroll_speed(ch(o)), False),
           ("scroll_speed_override", lambda o: scroll_speed(ch(o), override_bpm=100), False),
           ("pattern", lambda o: PtnCombo(Pattern.from_note_lists([ch(o).hits, ch(o).holds]).group(
               v_window=50, h_window=None)).combinations(size=2), False),
           ("timing_map", lambda o: ch(o).bpms.sorted().to_timing_map().bpm_changes_snap(), False),
           ("current_bpm", lambda o: ch(o).bpms.current_bpm(1000.0), False),
           ("ave_bpm", lambda o: ch(o).bpms.ave_bpm(9000.0), False),
           ("snap_offsets", lambda o: ch(o).bpms.snap_offsets(4, 6000.0), False),
           ("time_diff", lambda o: ch(o).hits.time_diff(), False),
           ("describe_list", lambda o: ch(o).hits.describe(), False),
           ("getitem_type", lambda o: ch(o)[type(ch(o).hits)], False),
           ]
    if game in ("osu", "qua"):
        from reamber.algorithms.generate.sv_normalize import sv_normalize
        ops += [("sv_normalize", lambda o: sv_normalize(o), False),
                ("sv_normalize_override", lambda o: sv_normalize(o, override_bpm=150), False)]
    if game == "osu":
        from reamber.algorithms.osu.hitsound_copy import hitsound_copy
        ops += [("write", lambda o: o.write(), False),
                ("hitsound_copy_as_src", lambda o: hitsound_copy(o, build("osu", rng("t"), 0)), False),
                ("hitsound_copy_as_tgt", lambda o: hitsound_copy(build("osu", rng("t"), 1), o), True)]
    if game == "qua":
        ops += [("write", lambda o: o.write(), False)]
    if game == "sm":
        ops += [("write", lambda o: o.write(), False)]
    if game == "bms":
        from reamber.bms.BMSChannel import BMSChannel
        ops += [("write", lambda o: o.write(BMSChannel.BME), False)]
    for name, (sg, tg, is_set, kind, has_shift) in c08.CONVERTERS.items():
        if sg == game:
            ops.append((f"convert.{name}", lambda o, name=name: c08.call_converter(name, o, 1), False))
    return ops


def exec_ops(scn):
    """All operations of the catalogue, in a seeded order, on ONE input object: after each call the
    input must still be what it was (so every sequence prefix is judged too)."""
    game = scn["game"]
    r = rng(f"c14-{scn['id']}")
    out = []
    try:
        obj = build(game, r, scn["variant"])
    except Exception as e:
        return [{"id": f"{scn['id']}/{game}/build", "op": "build", "cls": f"{game}.build", "exc": exc_name(e),
                 "before": [], "after": [], "poked": [], "copy": False}]
    ops = ops_for(game, obj)
    r.shuffle(ops)
    for n, (name, fn, is_copy) in enumerate(ops):
        rec = {"id": f"{scn['id']}/{game}/{n}.{name}", "op": name, "cls": f"{game}.{name}", "exc": "", "copy": is_copy,
               "before": [], "after": [], "poked": [], "seq": [o[0] for o in ops[:n]]}
        try:
            rec["before"] = full_proj(obj)
            res = None
            try:
                res = fn(obj)
            except Exception as e:
                # the operation may legitimately refuse this chart; the frame condition still applies
                rec["raised"] = exc_name(e)
            rec["after"] = full_proj(obj)
            if is_copy and res is not None:
                poke(res)
                rec["poked"] = full_proj(obj)
            else:
                rec["copy"] = False
        except Exception as e:
            rec["exc"] = exc_name(e)
        out.append(rec)
        if rec["after"] != rec["before"] or (rec["copy"] and rec["poked"] != rec["before"]):
            # the input is damaged: later records would only repeat the news
            try:
                obj = build(game, r, scn["variant"])
            except Exception:
                break
    return out


def from_list_record(x):
    """A timed-list record of the C16 driver as a frame record."""
    return {"id": x["id"], "op": x["op"], "cls": x["cls"], "exc": "" if not x["exc"] or x["op"] == "get_oob" else "",
            # results that are fresh frames on the unchanged tree (boolean-mask filters, sorts, concat): editing them must not reach the input
            "copy": x["op"] in ("deepcopy", "move_start", "move_end", "append", "after", "before", "between", "sorted", "mask"),
            # (an appended argument is an input of the call as well)
            "before": {"rows": x["pre"], "meta": x["meta_pre"], "arg": x.get("arg_pre", [])},
            "after": {"rows": x["pre_after"], "meta": x["meta_after"], "arg": x.get("arg_after", [])},
            "poked": {"rows": x["pre"], "meta": x["meta_pre"], "arg": x.get("arg_pre", [])} if not x.get("shared") else {"shared": 1}}
