"""C12 driver: replay stack histories on real charts of the five games and project the lists."""
from __future__ import annotations

import math

from harness.charts import GAMES, basic_content, map_class, mapset_class, new_map, complete_row
from harness.common import exc_name, rng
from harness.project import ProjectionError, sval

STACK_PROPS = ("offset", "column", "length", "bpm", "metronome")


NAN = -2000000000          # projection of NaN where a history assigns it on purpose


def proj_lists(m, nan_ok=False):
    out = []
    for name, lst in m.objs.items():
        df = lst.df
        cols = [str(c) for c in df.columns]
        rows = []
        for i in range(len(df)):
            r = df.iloc[i]
            v = {}
            for c in cols:
                if c in STACK_PROPS:
                    f = float(r[c])
                    if nan_ok and f != f:
                        v[c] = NAN
                        continue
                    if not math.isfinite(f):
                        raise ProjectionError(f"{name}.{c} is {f}")
                    v[c] = int(round(f * 1000))
            x = [sval(r[c]) for c in sorted(cols) if c not in STACK_PROPS]
            rows.append({"v": v, "x": x})
        out.append({"name": name, "cls": type(lst).__name__, "rows": rows})
    return out


def _apply(target, key, f):
    """target[key] op= value, as a user would write it."""
    if f["kind"] == "setcols":
        target[key] = [f["vals"][c] / 1000.0 for c in key[1]]       # one value per column, in the order the columns are named
    elif f["kind"] == "set" and f["c"] == NAN:
        target[key] = float("nan")
    elif f["kind"] == "add":
        target[key] += f["c"] / 1000.0
    elif f["kind"] == "mul":
        target[key] *= f["c"]
    else:
        target[key] = f["c"] / 1000.0


class _Attr:
    """stack.<prop> op= v  through the generated property (getattr / setattr)."""
    def __init__(self, stk):
        self.stk = stk

    def __getitem__(self, k):
        return getattr(self.stk, k)

    def __setitem__(self, k, v):
        setattr(self.stk, k, v)


def run_history(m, hist, rid, game, inc_types=None, r=None):
    import numpy as np
    recs = []
    stk, fresh = None, False
    names = list(m.objs.keys())

    def inc_positions():
        if inc_types is None:
            return list(range(1, len(names) + 1))
        return [i + 1 for i, n in enumerate(names) if isinstance(m.objs[n], inc_types)]
    for n, h in enumerate(hist):
        op = h["op"]
        if op == "stack":
            stk = m.stack() if inc_types is None else m.stack(inc_types)
            fresh = True
            continue
        if op == "edit":
            lst = m.objs[names[h["list"] - 1]]
            if len(lst):
                lst.df.iloc[0, list(lst.df.columns).index("offset")] += 7.0
            fresh = False
            continue
        if stk is None:
            continue
        rec = {"id": f"{rid}/{n}", "op": op, "cls": f"{game}.{op}", "game": game, "exc": "", "stale": not fresh,
               "inc": inc_positions(), "f": h["f"], "pre": [], "post": []}
        try:
            nan_ok = h["f"].get("c") == NAN
            rec["pre"] = proj_lists(m)
            if op == "set":
                rec["p"] = h["p"]
                if h.get("via") == "item":
                    _apply(stk, h["p"], h["f"])
                else:
                    _apply(_Attr(stk), h["p"], h["f"])
            else:
                rec["mask"] = [bool(b) for b in h["mask"]]
                rec["cols"] = list(h["cols"])
                mask = np.array(rec["mask"], dtype=bool)
                cols = rec["cols"][0] if len(rec["cols"]) == 1 and h.get("scalar_col", True) else rec["cols"]
                _apply(stk.loc, (mask, cols), h["f"])
            rec["post"] = proj_lists(m, nan_ok=nan_ok)
        except ProjectionError as e:
            rec["exc"] = "Projection:" + str(e)
        except Exception as e:
            rec["exc"] = exc_name(e)
        fresh = True
        recs.append(rec)
        if rec["exc"]:
            break
    return recs


def exec_hist(scn):
    """One TLC-emitted history on the five games (and the base Map)."""
    out = []
    nh, nl, nb = scn["n"]
    for game in scn["games"]:
        m = new_map(game, basic_content(nh, nl, nb))
        out += run_history(m, scn["hist"], f"{scn['id']}/{game}", game)
    return out


# ------------------------------------------------------------------------------------------
# beyond the model's bounds: every list populated, odd row labels, include_types, map sets

def _rand_content(game, r, big=False):
    m = map_class(game)()
    content = {}
    k = 0
    for name, lst in m.objs.items():
        props = type(lst)._item_class()._props
        rows = []
        for _ in range(r.randint(0, 4 if big else 3)):
            row = {"offset": float(r.choice([-1000, 0, 250, 500, 1000, 1500]))}
            if "column" in props:
                row["column"] = r.randint(0, 6)
            if "length" in props:
                row["length"] = float(r.choice([0, 250, 500]))
            if "bpm" in props:
                row["bpm"] = float(r.choice([60, 120, 180]))
            if "multiplier" in props:
                row["multiplier"] = r.choice([0.5, 1.0, 2.0])
            k += 1
            rows.append(row)
        content[name] = rows
    return content


def _shape_labels(m, r):
    """non-default row labels: reverse-sort or filter some lists (keeps contents a plain sequence)."""
    for name in list(m.objs):
        lst = m.objs[name]
        if len(lst) >= 2:
            c = r.random()
            if c < 0.3:
                m.objs[name] = lst.sorted(reverse=True)
            elif c < 0.5:
                m.objs[name] = lst[1:]
            elif c < 0.6:
                m.objs[name] = lst.append(lst[0:1])


def _rand_hist(m, r, inc_types=None, nsteps=5):
    n = sum(len(l) for l in m.objs.values() if inc_types is None or isinstance(l, inc_types))
    have = set()
    for l in m.objs.values():
        if inc_types is None or isinstance(l, inc_types):
            have |= set(l.df.columns) & set(STACK_PROPS)
    hist = [{"op": "stack"}]
    for _ in range(r.randint(1, nsteps)):
        c = r.random()
        f = r.choice([{"kind": "add", "c": 1000}, {"kind": "add", "c": -250}, {"kind": "mul", "c": 2},
                      {"kind": "mul", "c": 3}, {"kind": "set", "c": 4000}])
        if c < 0.35 and have:
            hist.append({"op": "set", "p": r.choice(sorted(have)), "f": f, "via": r.choice(["attr", "item"])})
        elif c < 0.85 and have and n:
            cols = r.sample(sorted(have), r.randint(1, min(3, len(have))))
            hist.append({"op": "loc", "mask": [r.random() < 0.5 for _ in range(n)], "cols": cols, "f": f,
                         "scalar_col": r.random() < 0.5})
        elif c < 0.93:
            hist.append({"op": "stack"})
        else:
            hist.append({"op": "edit", "list": r.randint(1, len(m.objs))})
            hist.append({"op": "stack"})
    tail = r.random()
    if tail < 0.2 and have and n and len(have) >= 2:
        # several columns assigned a list of values, the columns named in an order of the caller's choosing
        cols = r.sample(sorted(have), 2)
        if r.random() < 0.5:
            cols = sorted(cols, reverse=True)
        hist.append({"op": "loc", "mask": [r.random() < 0.6 for _ in range(n)], "cols": cols, "scalar_col": False,
                     "f": {"kind": "setcols", "c": 0, "vals": {cols[0]: 10000, cols[1]: 5000000}}})
    elif tail < 0.35 and have and n:
        # NaN written through (last step: nothing is computed on it afterwards)
        hist.append({"op": "loc", "mask": [r.random() < 0.5 for _ in range(n)], "cols": [r.choice(sorted(have))], "f": {"kind": "set", "c": NAN},
                     "scalar_col": True})
    return hist


def exec_random(scn):
    from reamber.base.lists.notes.HitList import HitList
    from reamber.base.lists.notes.HoldList import HoldList
    from reamber.base.lists.notes.NoteList import NoteList
    from reamber.base.lists.BpmList import BpmList
    r = rng("c12-" + scn["id"])
    game = scn["game"]
    out = []
    kind = scn["kind"]
    if kind == "map":
        m = new_map(game, _rand_content(game, r))
        _shape_labels(m, r)
        inc = r.choice([None, None, (HitList,), (HitList, HoldList), (NoteList,), (BpmList,), (NoteList, BpmList)])
        out += run_history(m, _rand_hist(m, r, inc), f"{scn['id']}/{game}", game, inc_types=inc)
    else:
        # map set: whole-column arithmetic per chart
        maps = [new_map(game, _rand_content(game, r)) for _ in range(r.randint(1, 3))]
        for m in maps:
            _shape_labels(m, r)
        ms_ = mapset_class(game)(maps=maps)
        stk = ms_.stack()
        for step in range(r.randint(2, 3)):
            have = set()
            for m in maps:
                for l in m.objs.values():
                    have |= set(l.df.columns) & set(STACK_PROPS)
            if step and r.random() < 0.6:
                # history: a list is edited directly, then the set is stacked again
                lst = next((l for m in maps for l in m.objs.values() if len(l)), None)
                if lst is not None:
                    lst.df.iloc[0, list(lst.df.columns).index("offset")] += 7.0
                stk = ms_.stack()
            p = r.choice(sorted(have))
            f = r.choice([{"kind": "add", "c": 1000}, {"kind": "mul", "c": 2}])
            pres = []
            exc = ""
            try:
                pres = [proj_lists(m) for m in maps]
                if f["kind"] == "add":
                    setattr(stk, p, getattr(stk, p) + f["c"] / 1000.0)
                else:
                    setattr(stk, p, getattr(stk, p) * f["c"])
                posts = [proj_lists(m) for m in maps]
            except ProjectionError as e:
                exc, posts = "Projection:" + str(e), [[] for _ in maps]
            except Exception as e:
                exc, posts = exc_name(e), [[] for _ in maps]
            for i, m in enumerate(maps):
                out.append({"id": f"{scn['id']}/{game}/ms{step}.{i}", "op": "set", "cls": f"{game}.mapset.set", "game": game,
                            "exc": exc, "stale": False, "inc": list(range(1, len(m.objs) + 1)), "f": f, "p": p,
                            "pre": pres[i] if pres else [], "post": posts[i]})
            if exc:
                break
    return out
