"""EXTENSION driver (beyond the listed properties): typed access chart[T] / chart[T] = lists, one record per scenario."""
from __future__ import annotations

from harness.common import exc_name

FIVE = ("TimedList", "NoteList", "HitList", "HoldList", "BpmList")


def _classes():
    from reamber.base.lists.TimedList import TimedList
    from reamber.base.lists.notes.NoteList import NoteList
    from reamber.base.lists.notes.HitList import HitList
    from reamber.base.lists.notes.HoldList import HoldList
    from reamber.base.lists.BpmList import BpmList
    return {"TimedList": TimedList, "NoteList": NoteList, "HitList": HitList, "HoldList": HoldList, "BpmList": BpmList}


def _probe(m, T, rid, cls):
    C = _classes()
    objs = [{"name": k, "anc": [n for n in FIVE if isinstance(v, C[n])], "id": 0} for k, v in m.objs.items()]
    rec = {"id": rid, "op": "access", "cls": cls, "ext": True, "T": T, "objs": objs, "exc": "", "got": [], "after": []}
    try:
        got = m[C[T]]
        names = {id(v): k for k, v in m.objs.items()}
        rec["got"] = [names.get(id(x), "?") for x in got]
        new = [x.deepcopy() for x in got]
        m[C[T]] = new
        rec["after"] = [next((100 + j + 1 for j, nw in enumerate(new) if x is nw), 0) for x in m[C[T]]]
    except Exception as e:
        rec["exc"] = exc_name(e).split(":")[0]
    return rec


def exec_access(scn):
    from reamber.base.Map import Map
    C = _classes()
    out = []
    m = Map()
    m.objs = {f"{k + 1}": C[c]([]) for k, c in enumerate(scn["classes"])}
    # the model names lists by position (1..n)
    rec = _probe(m, scn["T"], "acc/" + ".".join(scn["classes"]) + "/" + scn["T"], "ext.access.base")
    for o in rec["objs"]:
        o["name"] = int(o["name"])
    rec["got"] = [int(x) if x != "?" else 0 for x in rec["got"]]
    out.append(rec)
    return out


def exec_access_games(_):
    """the same on charts of the five games (their own list classes and extra lists)"""
    from harness.charts import new_map
    out = []
    for game in ("osu", "qua", "sm", "bms", "o2j"):
        for T in FIVE:
            m = new_map(game, {"hits": [{"offset": 0.0, "column": 0}], "holds": [{"offset": 10.0, "column": 1, "length": 5.0}],
                               "bpms": [{"offset": 0.0, "bpm": 120.0, "metronome": 4}]})
            out.append(_probe(m, T, f"acc/{game}/{T}", f"ext.access.{game}"))
    return out
