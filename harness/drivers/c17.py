"""C17 driver: full_ln on charts of every game, built through several histories."""
from __future__ import annotations

import math

from harness.charts import new_map, complete_row
from harness.common import exc_name, rng
from harness.drivers.c12 import proj_lists
from harness.project import ProjectionError

UNIT = 100.0   # one model time unit = 100 ms
FORMS = ("from_dict", "items", "append_item", "sorted_rev", "stack_write", "shuffled", "stack_then_edit")


def notes_of(m):
    out = []
    for kind, lst in (("hit", m.hits), ("hold", m.holds)):
        df = lst.df
        for i in range(len(df)):
            r = df.iloc[i]
            t, c = float(r["offset"]), float(r["column"])
            n = float(r["length"]) if kind == "hold" else 0.0
            if not all(math.isfinite(x) for x in (t, c, n)) or not c.is_integer():
                raise ProjectionError(f"{kind} row {i}: {t},{c},{n}")
            out.append({"t": int(round(t * 1000)), "c": int(c), "n": int(round(n * 1000)), "k": kind})
    return out


def build(game, notes, form, r):
    # (x["f"]: a dyadic fraction of a millisecond added after scaling, so that differences of times stay exact floats)
    hits = [{"offset": x["t"] * UNIT + x.get("f", 0.0), "column": x["c"]} for x in notes if x["k"] == "hit"]
    holds = [{"offset": x["t"] * UNIT + x.get("f", 0.0), "column": x["c"], "length": x["n"] * UNIT} for x in notes if x["k"] == "hold"]
    bpms = [{"offset": 0.0, "bpm": 120.0, "metronome": 4}]
    extra = {}
    if game in ("osu", "qua"):
        extra["svs"] = [{"offset": 50.0, "multiplier": 1.5}]
    if form == "shuffled":
        r.shuffle(hits)
        r.shuffle(holds)
    if form in ("items", "append_item"):
        m = new_map(game, {"bpms": bpms, **extra})
        for name, rows in (("hits", hits), ("holds", holds)):
            cls = type(m.objs[name])
            items = [cls._item_class()(**complete_row(cls, row)) for row in rows]
            if form == "items":
                m.objs[name] = cls(items)
            else:
                lst = cls([])
                for it in items:
                    lst = lst.append(it)
                m.objs[name] = lst
        return m
    m = new_map(game, {"hits": hits, "holds": holds, "bpms": bpms, **extra})
    if form == "sorted_rev":
        m.hits = m.hits.sorted(reverse=True)
        m.holds = m.holds.sorted(reverse=True)
    if form == "stack_write":
        m.stack().offset += 0.0
    if form == "stack_then_edit":
        # history: stacks were taken (all lists, and the note lists only), then the lists were edited directly
        from reamber.base.lists.notes.HitList import HitList
        from reamber.base.lists.notes.HoldList import HoldList
        m.stack()
        m.stack((HitList, HoldList))
        m.hits.offset += UNIT / 2
        m.holds.offset += UNIT / 2
        m.holds.length += UNIT / 2
    return m


def exec_fullln(scn):
    from reamber.algorithms.generate.full_ln import full_ln
    r = rng("c17-" + scn["id"])
    out = []
    for game, form in scn["runs"]:
        rec = {"id": f"{scn['id']}/{game}/{form}", "op": "full_ln", "cls": f"{game}.{form}", "game": game, "exc": "",
               "gap": int(round(scn["gap"] * UNIT * 1000)), "thr": int(round(scn["thr"] * UNIT * 1000)),
               "notes": [], "out": [], "others_pre": [], "others_post": []}
        try:
            m = build(game, scn["notes"], form, r)
            rec["notes"] = notes_of(m)
            rec["others_pre"] = [l for l in proj_lists(m) if l["name"] not in ("hits", "holds")]
            res = full_ln(m, gap=scn["gap"] * UNIT, ln_as_hit_thres=scn["thr"] * UNIT)
            rec["out"] = notes_of(res)
            rec["others_post"] = [l for l in proj_lists(res) if l["name"] not in ("hits", "holds")]
        except ProjectionError as e:
            rec["exc"] = "Projection:" + str(e)
        except Exception as e:
            rec["exc"] = exc_name(e)
        out.append(rec)
    return out


def random_scenarios(n, tier):
    """larger charts: up to 12 notes, 7 columns, off-grid times, chords, real-valued gap/threshold"""
    r = rng("c17-random")
    out = []
    for i in range(n):
        notes = []
        for _ in range(r.randint(1, 12)):
            kind = r.choice(["hit", "hit", "hold"])
            notes.append({"t": r.choice([0, 1, 2, 3, 5, 8, 13]) + r.choice([0, 0, 0.25, 0.5]), "f": r.choice([0.0, 0.0, 0.25, 0.75]), "c": r.randint(0, 6),
                          "k": kind, "n": r.choice([0.5, 1, 2, 4]) if kind == "hold" else 0})
        out.append({"id": f"rnd{i}", "notes": notes, "gap": r.choice([0, 0.25, 1, 1.5, 2]), "thr": r.choice([0, 0.5, 1, 3])})
    return out
