"""OJN byte strings: encoder (abstract packages -> bytes) and decoder (bytes -> tokens), both
written from the published file layout with `struct`, independently of the library's reader."""
from __future__ import annotations

import struct

T = 100  # ticks per ms


def _bl(bpm: float) -> int:
    return int(round(60000.0 / bpm * T))


def _bpm(bl: int) -> float:
    return 60000.0 * T / bl


def encode(lvls, bl0, meta=None) -> bytes:
    """lvls: three lists of packages [m, ch, n, evs=[{i, kind, vol, pan, bl}]] -> .ojn bytes"""
    meta = meta or {}
    body = b""
    pkg_counts, note_counts, ev_counts = [], [], []
    for lvl in lvls:
        pkg_counts.append(len(lvl))
        nn = ne = 0
        for p in lvl:
            body += struct.pack("<ihh", p["m"], p["ch"], p["n"])
            slots = [b"\x00\x00\x00\x00"] * p["n"]
            for e in p["evs"]:
                ne += 1
                if p["ch"] == 0:
                    nn += 0
                    slots[e["i"]] = struct.pack("<f", e["f1000"] / 1000.0)     # measure-fraction package (EXTENSION)
                elif p["ch"] == 1:
                    slots[e["i"]] = struct.pack("<f", _bpm(e["bl"]))
                else:
                    nn += 1
                    slots[e["i"]] = struct.pack("<hBB", 1 + e.get("value", 0), (e["vol"] % 16) * 16 + (e["pan"] % 16), e["kind"])
            body += b"".join(slots)
        note_counts.append(nn)
        ev_counts.append(ne)

    def s(txt, n):
        b = txt.encode("ascii")[:n]
        return b + b"\x00" * (n - len(b))
    hdr = struct.pack("<i", meta.get("song_id", 1234)) + s("ojn", 4) + struct.pack("<f", 2.9) + struct.pack("<i", meta.get("genre", 3))
    hdr += struct.pack("<f", _bpm(bl0)) + struct.pack("<4h", *(meta.get("level", [3, 7, 12]) + [0]))
    hdr += struct.pack("<3i", *ev_counts) + struct.pack("<3i", *note_counts) + struct.pack("<3i", 4, 4, 4)
    hdr += struct.pack("<3i", *pkg_counts) + struct.pack("<hh", 29, 1234) + s("oldgenre", 20) + struct.pack("<ii", 0, 29)
    hdr += s(meta.get("title", "Title"), 64) + s(meta.get("artist", "Artist"), 32) + s(meta.get("creator", "Noter"), 32)
    hdr += s(meta.get("ojm", "o2ma100.ojm"), 32) + struct.pack("<i", 0) + struct.pack("<3i", 100, 110, 120)
    off = 300
    offs = []
    for lvl in lvls:
        offs.append(off)
        off += sum(8 + 4 * p["n"] for p in lvl)
    hdr += struct.pack("<3i", *offs) + struct.pack("<i", off)
    assert len(hdr) == 300, len(hdr)
    return hdr + body


def decode(b: bytes) -> dict:
    """bytes -> tokens (header fields and, per difficulty, packages with their non-empty events)"""
    f = {}
    (f["song_id"],) = struct.unpack_from("<i", b, 0)
    f["signature"] = b[4:8].split(b"\x00")[0].decode("ascii", "ignore")
    (f["genre"],) = struct.unpack_from("<i", b, 12)
    (bpm,) = struct.unpack_from("<f", b, 16)
    f["bl0"] = _bl(bpm)
    f["bpm1000"] = int(round(bpm * 1000))
    f["level"] = list(struct.unpack_from("<4h", b, 20))
    f["event_count"] = list(struct.unpack_from("<3i", b, 28))
    f["note_count"] = list(struct.unpack_from("<3i", b, 40))
    f["measure_count"] = list(struct.unpack_from("<3i", b, 52))
    f["package_count"] = list(struct.unpack_from("<3i", b, 64))
    f["title"] = b[108:172].split(b"\x00")[0].decode("ascii", "ignore")
    f["artist"] = b[172:204].split(b"\x00")[0].decode("ascii", "ignore")
    f["creator"] = b[204:236].split(b"\x00")[0].decode("ascii", "ignore")
    f["ojm_file"] = b[236:268].split(b"\x00")[0].decode("ascii", "ignore")
    f["duration"] = list(struct.unpack_from("<3i", b, 272))
    pos = 300
    lvls = []
    for cnt in f["package_count"]:
        lvl = []
        for _ in range(cnt):
            m, ch, n = struct.unpack_from("<ihh", b, pos)
            pos += 8
            evs = []
            for i in range(n):
                raw = b[pos:pos + 4]
                pos += 4
                if ch == 0:
                    (v,) = struct.unpack("<f", raw)
                    if i == 0:
                        evs.append({"i": 0, "kind": 0, "vol": 0, "pan": 0, "bl": 0, "f1000": int(round(v * 1000))})
                elif ch == 1:
                    (v,) = struct.unpack("<f", raw)
                    if v != 0:
                        evs.append({"i": i, "kind": 0, "vol": 0, "pan": 0, "bl": _bl(v)})
                elif 2 <= ch <= 8:
                    val, vp, kind = struct.unpack("<hBB", raw)
                    if val != 0:
                        evs.append({"i": i, "kind": kind, "vol": vp // 16, "pan": vp % 16, "bl": 0})
            lvl.append({"m": m, "ch": ch, "n": n, "evs": evs})
        lvls.append(lvl)
    f["lvls"] = lvls
    return f
