""".qua documents: PyYAML (trusted) does the text layer; this module turns the parsed tree into
the type-tagged tokens spec/QuaFmt.tla interprets, and abstract documents into YAML text."""
from __future__ import annotations

import math

import yaml

META_KEYS = ["AudioFile", "SongPreviewTime", "BackgroundFile", "BannerFile", "Genre", "BPMDoesNotAffectScrollVelocity",
             "InitialScrollVelocity", "HasScratchKey", "MapId", "MapSetId", "Mode", "Title", "Artist", "Source", "Tags",
             "Creator", "DifficultyName", "Description", "EditorLayers", "CustomAudioSamples", "SoundEffects"]


def scalar(v, scale=1000):
    if v is None:
        return {"tag": "null", "num": 0, "str": "", "words": []}
    if isinstance(v, bool):
        return {"tag": "bool", "num": int(v), "str": str(v), "words": []}
    if isinstance(v, int):
        return {"tag": "int", "num": v * scale, "str": str(v), "words": []}
    if isinstance(v, float):
        if math.isnan(v):
            return {"tag": "nan", "num": 0, "str": "nan", "words": []}
        if math.isinf(v):
            return {"tag": "nan", "num": 0, "str": "inf", "words": []}
        return {"tag": "float", "num": int(round(v * scale)), "str": repr(v), "words": []}
    if isinstance(v, str):
        return {"tag": "str", "num": 0, "str": v, "words": v.split()}
    if isinstance(v, list):
        return {"tag": "list", "num": len(v), "str": "", "words": []}
    if isinstance(v, dict):
        return {"tag": "map", "num": len(v), "str": "", "words": []}
    return {"tag": "other", "num": 0, "str": str(v), "words": []}


ABSENT = {"tag": "absent", "num": 0, "str": "", "words": []}


def tokens(text: str) -> dict:
    tree = yaml.safe_load(text)
    if not isinstance(tree, dict):
        raise ValueError("document is not a mapping")
    doc = {"top": [str(k) for k in tree.keys()], "objs": [], "tps": [], "svs": [], "meta": {}}
    for o in tree.get("HitObjects") or []:
        doc["objs"].append({"keys": [str(k) for k in o.keys()], "st": scalar(o["StartTime"]) if "StartTime" in o else ABSENT,
                            "lane": scalar(o["Lane"]) if "Lane" in o else ABSENT,
                            "end": scalar(o["EndTime"]) if "EndTime" in o else ABSENT,
                            "ks": scalar(o["KeySounds"]) if "KeySounds" in o else ABSENT})
    for o in tree.get("TimingPoints") or []:
        doc["tps"].append({"keys": [str(k) for k in o.keys()], "st": scalar(o["StartTime"]) if "StartTime" in o else ABSENT,
                           "bpm": scalar(o["Bpm"], 100) if "Bpm" in o else ABSENT})
    for o in tree.get("SliderVelocities") or []:
        doc["svs"].append({"keys": [str(k) for k in o.keys()], "st": scalar(o["StartTime"]) if "StartTime" in o else ABSENT,
                           "mult": scalar(o["Multiplier"], 10000) if "Multiplier" in o else ABSENT})
    for k, v in tree.items():
        if k not in ("HitObjects", "TimingPoints", "SliderVelocities"):
            doc["meta"][str(k)] = scalar(v)
    return doc


def _val(tok, scale=1000):
    if tok["tag"] == "int":
        return tok["num"] // scale
    return tok["num"] / scale


def concretize(scn, meta: dict, style=0) -> str:
    """abstract document (as emitted by QuaMC) -> YAML text"""
    tree = dict(meta)
    objs = []
    for o in scn["objs"]:
        d = {}
        if o["st"]["tag"] != "absent":
            d["StartTime"] = _val(o["st"])
        d["Lane"] = _val(o["lane"])
        if o["end"]["tag"] != "absent":
            d["EndTime"] = _val(o["end"])
        if o["ks"]["tag"] != "absent":
            d["KeySounds"] = [{"Sample": 1, "Volume": 100}][:o["ks"]["num"]]
        objs.append(d)
    tps = []
    for o in scn["tps"]:
        d = {}
        if o["st"]["tag"] != "absent":
            d["StartTime"] = _val(o["st"])
        d["Bpm"] = o["bpm"]["num"] / 100
        tps.append(d)
    svs = []
    for o in scn["svs"]:
        d = {}
        if o["st"]["tag"] != "absent":
            d["StartTime"] = _val(o["st"])
        if o["mult"]["tag"] != "absent":
            d["Multiplier"] = o["mult"]["num"] / 10000
        svs.append(d)
    tree["TimingPoints"], tree["SliderVelocities"], tree["HitObjects"] = tps, svs, objs
    return yaml.safe_dump(tree, default_flow_style=(style == 1), sort_keys=(style == 2), allow_unicode=True)
