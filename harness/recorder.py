"""pytest plugin (harness side, no change to the repository): with REAMBERPY_VERIF=1 it wraps the timed-list
operations while the repository's OWN test suite runs and logs one trace record per call (lists of at most
40 rows), in the record format of drivers/c16.py.  The records are then validated by TLC like any other trace.

usage: cd /repo && REAMBERPY_VERIF=1 REAMBERPY_VERIF_TRACE=/verif/out/suite.ndjson PYTHONPATH=/verif \\
       /venv/bin/python -m pytest -p harness.recorder tests/unit_tests ..."""
from __future__ import annotations

import json
import os

_ON = os.environ.get("REAMBERPY_VERIF") == "1"
_OUT = os.environ.get("REAMBERPY_VERIF_TRACE", "/verif/out/suite_trace.ndjson")
_N = [0]
_DEPTH = [0]
MAXROWS = 150


def _emit(rec):
    with open(_OUT, "a") as fh:
        fh.write(json.dumps(rec, separators=(",", ":"), default=str) + "\n")


def _wrap(cls, name, op, argmap, result="list"):
    from harness.project import ProjectionError, declared_fields, list_meta, proj_list
    from harness.drivers.c16 import is_hold
    orig = getattr(cls, name)

    def wrapper(self, *a, **kw):
        if _DEPTH[0] or len(self) > MAXROWS:
            return orig(self, *a, **kw)
        _DEPTH[0] += 1
        try:
            decl = declared_fields(type(self))
            try:
                pre, meta_pre = proj_list(self, decl), list_meta(self)
                args = argmap(self, *a, **kw)
            except Exception:
                return orig(self, *a, **kw)     # not projectable (NaN etc.): not a record
            _N[0] += 1
            rec = {"id": f"suite/{os.environ.get('PYTEST_CURRENT_TEST', '?').split(' ')[0]}/{_N[0]}", "op": op,
                   "cls": f"{type(self).__name__}.{op}", "hold": is_hold(type(self)), "declared": decl, "cols": decl, "exc": "",
                   "pre": pre, "pre_after": [], "meta_pre": meta_pre, "meta_after": {}, "post": [], "shared": 0}
            rec.update(args)
            rec["cls"] = f"{type(self).__name__}.{rec['op']}"
            try:
                res = orig(self, *a, **kw)
            except Exception:
                raise                              # the test expects it; no record
            try:
                if result == "item":
                    from harness.project import proj_item
                    rec["post"] = [proj_item(res, decl)]
                elif result == "auto":
                    from harness.project import proj_item
                    from reamber.base.lists.TimedList import TimedList as _TL
                    if isinstance(res, _TL):
                        if len(res) > 2 * MAXROWS:
                            return res
                        rec["post"] = proj_list(res, decl)
                        rec["cols"] = [str(c) for c in res.df.columns]
                    else:
                        rec["post"] = [proj_item(res, decl)]
                elif result == "list":
                    if len(res) > 2 * MAXROWS:
                        return res
                    rec["post"] = proj_list(res, decl)
                    rec["cols"] = [str(c) for c in res.df.columns]
                elif result == "offset":
                    rec["none"] = res is None
                    rec["res"] = 0 if res is None else round(float(res) * 1000)
                rec["pre_after"], rec["meta_after"] = proj_list(self, decl), list_meta(self)
                _emit(rec)
            except (ProjectionError, Exception):
                pass
            return res
        finally:
            _DEPTH[0] -= 1
    wrapper.__wrapped__ = orig
    setattr(cls, name, wrapper)


def pytest_configure(config):
    if not _ON:
        return
    if os.path.exists(_OUT):
        os.unlink(_OUT)
    from reamber.base.lists.TimedList import TimedList
    from reamber.base.lists.notes.HoldList import HoldList
    from harness.common import ticks

    def t(x):
        return ticks(x)
    _wrap(TimedList, "sorted", "sorted", lambda s, reverse=False: {"rev": bool(reverse)})
    _wrap(TimedList, "after", "after", lambda s, offset, include_end=False: {"t": t(offset), "inc": bool(include_end), "tail": False})
    _wrap(TimedList, "before", "before", lambda s, offset, include_end=False: {"t": t(offset), "inc": bool(include_end), "head": True})
    _wrap(HoldList, "after", "after", lambda s, offset, include_end=False, include_tail=False:
          {"t": t(offset), "inc": bool(include_end), "tail": bool(include_tail)})
    _wrap(HoldList, "before", "before", lambda s, offset, include_end=False, include_head=True:
          {"t": t(offset), "inc": bool(include_end), "head": bool(include_head)})
    _wrap(TimedList, "first_offset", "first", lambda s: {}, result="offset")
    _wrap(TimedList, "last_offset", "last", lambda s: {}, result="offset")
    _wrap(HoldList, "last_offset", "last", lambda s: {}, result="offset")
    _wrap(TimedList, "deepcopy", "deepcopy", lambda s: {})

    class Skip(Exception):
        pass

    def getitem_args(s, item):
        import numpy as np
        import pandas as pd
        if isinstance(item, (int, np.integer)) and not isinstance(item, bool):
            if not -len(s) <= int(item) < len(s):
                raise Skip()
            return {"op": "get", "i": int(item)}
        if isinstance(item, slice):
            if item.step not in (None, 1):
                raise Skip()
            a = -99 if item.start is None else int(item.start)
            b = 99 if item.stop is None else int(item.stop)
            if abs(a) > 90 and a != -99 or abs(b) > 90 and b != 99:
                raise Skip()
            return {"op": "slice", "a": a, "b": b}
        if isinstance(item, (np.ndarray, pd.Series, list)) and len(item) == len(s) and all(isinstance(x, (bool, np.bool_)) for x in item):
            return {"op": "mask", "mask": [bool(x) for x in item]}
        raise Skip()
    _wrap(TimedList, "__getitem__", "getitem", getitem_args, result="auto")

    def append_args(s, val, sort=False):
        from harness.project import proj_list, declared_fields
        if not isinstance(val, TimedList) or type(val) is not type(s) or len(val) > MAXROWS:
            raise Skip()
        return {"add": proj_list(val, declared_fields(type(s))), "sort": bool(sort), "form": "list"}
    _wrap(TimedList, "append", "append", append_args)
