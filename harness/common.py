"""Shared plumbing: locating the repository under test, seeds/tiers, parallel execution of
scenarios against the real code, verdicts, known findings and evidence files."""
from __future__ import annotations

import fnmatch
import json
import os
import random
import sys
import time
import traceback
from concurrent.futures import ProcessPoolExecutor
from fractions import Fraction
from pathlib import Path

VERIF = Path(__file__).resolve().parent.parent
REPO = os.environ.get("VERIF_REPO", "/repo")
OUT = Path(os.environ.get("VERIF_OUT", VERIF / "out"))
# seed / mutant runs point this at scratch so that the committed evidence only ever comes from /repo itself
EVID = Path(os.environ.get("VERIF_EVIDENCE_DIR", str(VERIF / "evidence")))
TICKS_PER_MS = 1000


def use_repo():
    """Make `import reamber` resolve to the tree under test (its current working tree)."""
    if REPO not in sys.path:
        sys.path.insert(0, REPO)
    import logging
    logging.disable(logging.CRITICAL)
    import warnings
    warnings.filterwarnings("ignore")


def seed() -> int:
    try:
        return int(os.environ.get("VERIF_SEED", "0"))
    except ValueError:
        return 0


def rng(salt: str = "") -> random.Random:
    return random.Random(f"{seed()}-{salt}")


def ticks(x, unit: int = TICKS_PER_MS) -> int:
    """Project a float (ms) onto the tick grid."""
    return int(round(float(x) * unit))


def ms(t: int, unit: int = TICKS_PER_MS) -> float:
    return t / unit


def frac(x) -> dict:
    f = Fraction(x)
    return {"n": f.numerator, "d": f.denominator}


def exc_name(e: BaseException) -> str:
    return type(e).__name__


def _run_chunk(args):
    fn_mod, fn_name, chunk = args
    use_repo()
    import importlib
    fn = getattr(importlib.import_module(fn_mod), fn_name)
    out = []
    for scn in chunk:
        try:
            out.extend(fn(scn))
        except Exception as e:  # harness failure, not a verdict
            out.append({"_harness_error": f"{type(e).__name__}: {e}", "scn": scn,
                        "tb": traceback.format_exc()[-1500:]})
    return out


def pmap(fn, scenarios: list, procs: int = 16, chunk: int | None = None) -> list:
    """Run fn(scenario) -> list[trace record] over all scenarios on `procs` processes."""
    if not scenarios:
        return []
    if chunk is None:
        chunk = max(1, min(200, len(scenarios) // (procs * 4) + 1))
    chunks = [scenarios[i:i + chunk] for i in range(0, len(scenarios), chunk)]
    args = [(fn.__module__, fn.__name__, c) for c in chunks]
    if procs <= 1 or len(chunks) == 1:
        res = [_run_chunk(a) for a in args]
    else:
        with ProcessPoolExecutor(max_workers=procs) as ex:
            res = list(ex.map(_run_chunk, args))
    flat = [r for part in res for r in part]
    errs = [r for r in flat if "_harness_error" in r]
    if errs:
        from harness.tlc import MachineryError
        raise MachineryError("harness error while executing scenarios: "
                             + json.dumps(errs[0], default=str)[:3000])
    return flat


def load_known() -> list[dict]:
    p = VERIF / "known_findings.json"
    if not p.exists():
        return []
    return json.loads(p.read_text()).get("findings", [])


class Check:
    """Accumulates what one run of one property's check covered and decides its exit code."""

    def __init__(self, pid: str, tier: str):
        self.pid, self.tier = pid, tier
        self.t0 = time.time()
        self.states = 0
        self.transitions = 0
        self.models: list[dict] = []
        self.traces = 0
        self.by_op: dict[str, int] = {}
        self.samples: list = []
        self.rejects: list[dict] = []       # {id, failing, cls, rec}
        self.observations: list[dict] = []  # rejected records of behaviour BEYOND the listed property (rec["ext"]): never fatal
        self.model_violations: list[str] = []
        self.notes: list[str] = []
        self.assumptions: list[str] = []
        self.extra: dict = {}
        self.nontrivial = 0
        self.rule = ""

    # -- model checking -------------------------------------------------------------
    def add_model(self, name: str, r, note: str = ""):
        self.states += r.distinct
        self.transitions += r.states
        self.models.append({"model": name, "states_generated": r.states, "distinct": r.distinct,
                            "wall_s": round(r.wall_s, 1), "ok": r.ok, "violated": r.violated,
                            "actions": r.coverage, "note": note})
        if not r.ok:
            self.model_violations.append(f"{name}: {r.violated}")

    # -- trace validation -----------------------------------------------------------
    def add_traces(self, records: list[dict], rejects: list[dict]):
        self.traces += len(records)
        byid = {}
        for r in records:
            self.by_op[r.get("op", "?")] = self.by_op.get(r.get("op", "?"), 0) + 1
            byid[r["id"]] = r
        for rj in rejects:
            rec = byid.get(rj["id"], {})
            if "wf_input" in rj["failing"]:
                from harness.tlc import MachineryError
                raise MachineryError(f"scenario outside the spec's input domain (harness bug): {json.dumps(rec)[:1500]}")
            cls = rec.get("cls", "")
            if rec.get("ext"):
                self.observations.append({"id": rj["id"], "failing": sorted(rj["failing"]), "cls": cls, "rec": rec})
                continue
            if rj.get("tag"):
                cls = f"{cls}:{rj['tag']}"      # input class computed by the spec
            self.rejects.append({"id": rj["id"], "failing": sorted(rj["failing"]), "cls": cls, "rec": rec})

    def sample(self, rec, n: int = 3):
        if len(self.samples) < n:
            self.samples.append(rec)

    # -- verdict --------------------------------------------------------------------
    def finish(self) -> int:
        known = [k for k in load_known() if k["property"] == self.pid and k.get("status") == "open"]
        printed_known = set()
        violations = []
        for rj in self.rejects:
            hit = None
            for k in known:
                if rj["cls"] and any(fnmatch.fnmatchcase(rj["cls"], pat) for pat in k.get("classes", [])) and \
                        (not k.get("exc") or rj["rec"].get("exc") in k["exc"]) and \
                        set(rj["failing"]) <= set(k.get("clauses", rj["failing"])):
                    hit = k
                    break
            if hit is not None:
                printed_known.add(hit["key"])
            else:
                violations.append(rj)
        seen_obs = set()
        for o in self.observations:
            key = (o["cls"], tuple(o["failing"]))
            if key not in seen_obs and len(seen_obs) < 10:
                seen_obs.add(key)
                print(f"OBSERVATION: beyond property {self.pid}: class={o['cls']} clauses={','.join(o['failing'])} id={o['id']}")
        for k in known:
            if k["key"] in printed_known:
                print(f"KNOWN-FINDING: property={self.pid} {k['key']}: {k['what']}")
        rdir = OUT / "replay" / f"{self.pid}-{self.tier}"      # the two tiers may run at the same time
        rdir.mkdir(parents=True, exist_ok=True)
        for f in rdir.glob("*.json"):
            f.unlink()
        nviol = 0
        shown = set()
        for i, v in enumerate(violations):
            p = rdir / f"{i}.json"
            p.write_text(json.dumps(v, indent=1, default=str))
            nviol += 1
            key = (v["cls"], tuple(v["failing"]))
            if key in shown and nviol > 20:
                continue
            shown.add(key)
            print(f"VIOLATION property={self.pid} replay={p} clauses={','.join(v['failing'])} "
                  f"class={v['cls']} op={v['rec'].get('op')}")
        for i, mv in enumerate(self.model_violations):
            p = rdir / f"model{i}.json"
            p.write_text(json.dumps({"model_violation": mv}))
            print(f"VIOLATION property={self.pid} replay={p} model={mv}")
            nviol += 1
        self.write_evidence(nviol, sorted(printed_known))
        return 1 if nviol else 0

    def write_evidence(self, nviol: int, known_printed: list[str]):
        EVID.mkdir(exist_ok=True)
        cov = {
            "states": self.states,
            "transitions": self.transitions,
            "traces_validated_against_impl": self.traces,
            "samples": self.samples or [{"note": "no sample recorded"}],
            "evaluations": self.traces,
            "distinct_nontrivial": self.nontrivial,
            "rule": self.rule,
            "traces_by_op": self.by_op,
            "models": self.models,
            "rejected_traces": len(self.rejects),
            "extension_observations": [{"cls": o["cls"], "failing": o["failing"], "id": o["id"]} for o in self.observations[:20]],
            "extension_records_rejected": len(self.observations),
            "known_findings_printed": known_printed,
            "notes": self.notes,
        }
        cov.update(self.extra)
        ev = {
            "property_id": self.pid,
            "tier": self.tier,
            "seed": seed(),
            "level": "model_checking",
            "coverage": cov,
            "assumptions": self.assumptions,
            "wall_s": round(time.time() - self.t0, 2),
            "violations": nviol,
        }
        (EVID / f"{self.pid}.json").write_text(json.dumps(ev, indent=1, default=str) + "\n")
