"""Independent tokeniser / printer for BMS / BME / PMS text (NOT the library's reader)."""
from __future__ import annotations

import re

T = 100  # ticks per ms


def _bl(bpm: float) -> int:
    return int(round(60000.0 / bpm * T))


def lex(data) -> dict:
    if isinstance(data, bytes):
        text = data.decode("shift_jis", errors="replace")
    elif isinstance(data, list):
        text = "\n".join(data)
    else:
        text = data
    tok = {"bpm0": 0, "lnobj": "", "wavs": [], "exbpm": [], "hdr": [], "lines": [], "junk": 0, "bad_lines": 0, "sigs": []}
    raw_lines = []
    for ln in text.replace("\r\n", "\n").replace("\r", "\n").split("\n"):
        s = ln.strip()
        if not s:
            continue
        if not s.startswith("#"):
            tok["junk"] += 1
            continue
        m = re.match(r"^#(\d{3})([0-9A-Za-z]{2}):(.*)$", s)
        if m:
            raw_lines.append((int(m.group(1)), m.group(2).upper(), m.group(3).strip()))
            continue
        parts = s[1:].split(None, 1)
        key = parts[0].upper()
        val = parts[1].strip() if len(parts) > 1 else ""
        tok["hdr"].append({"key": key, "val": val})
        try:
            if key == "BPM":
                tok["bpm0"] = _bl(float(val))
            elif key == "LNOBJ":
                tok["lnobj"] = val.upper()
            elif key.startswith("WAV") and len(key) == 5:
                tok["wavs"].append({"id": key[3:], "file": val})
            elif key.startswith("BPM") and len(key) == 5:
                tok["exbpm"].append({"id": key[3:], "bl": _bl(float(val)), "bpm1000": int(round(float(val) * 1000))})
        except (ValueError, ZeroDivisionError):
            tok["junk"] += 1
    ex = {e["id"]: e["bl"] for e in tok["exbpm"]}
    for m, ch, seq in raw_lines:
        if ch == "02":
            try:
                tok["sigs"].append({"m": m, "f1000": int(round(float(seq) * 1000))})
            except ValueError:
                tok["bad_lines"] += 1
            continue
        if len(seq) % 2 or not re.match(r"^[0-9A-Za-z]*$", seq):
            tok["bad_lines"] += 1
            continue
        pairs = [seq[i:i + 2].upper() for i in range(0, len(seq), 2)]
        objs = []
        for i, p in enumerate(pairs):
            if p == "00":
                continue
            val = 0
            try:
                if ch == "03":
                    val = _bl(float(int(p, 16)))
                elif ch == "08":
                    val = ex.get(p, 0)
            except (ValueError, ZeroDivisionError):
                val = 0
            objs.append({"i": i, "id": p, "val": val})
        tok["lines"].append({"m": m, "ch": ch, "d": len(pairs), "objs": objs})
    return tok


def concretize(f, r, merge=False, shuffle=True, lower=False, late_headers=False, idmap=None, moff=0) -> list[str]:
    """token file of BMSMC -> text lines.  Lines may be merged when they share (measure, channel, d),
    and are written in a shuffled order."""
    out = ["#PLAYER 1", "#TITLE Song Title", "#ARTIST Some One", f"#BPM {60000.0 * T / f['bpm0']:g}", "#PLAYLEVEL 7",
           "#GENRE g", f"#LNOBJ {(idmap or {}).get(f['lnobj'], f['lnobj'])}"]
    # idmap: a consistent renaming of sample ids (header keys, LNOBJ and data alike), e.g. to lower-case base-36 ids
    for w in f["wavs"]:
        out.append(f"#WAV{(idmap or {}).get(w['id'], w['id'])} {w['file']}")
    ex_ids = {}
    lines = []
    for ln in f["lines"]:
        pairs = ["00"] * ln["d"]
        for o in ln["objs"]:
            if ln["ch"] == "03":
                pairs[o["i"]] = format(int(round(60000.0 * T / o["val"])), "02X")
            elif ln["ch"] == "08":
                key = o["val"]
                if key not in ex_ids:
                    ex_ids[key] = format(len(ex_ids) + 1, "02X")
                pairs[o["i"]] = ex_ids[key]
            else:
                pairs[o["i"]] = (idmap or {}).get(o["id"], o["id"])
        lines.append([ln["m"] + moff, ln["ch"], pairs])
    for bl, i in ex_ids.items():
        out.append(f"#BPM{i} {60000.0 * T / bl:.3f}")
    if merge:
        merged = {}
        for m, ch, pairs in lines:
            k = (m, ch, len(pairs))
            if k in merged and all(a == "00" or b == "00" for a, b in zip(merged[k], pairs)):
                merged[k] = [a if a != "00" else b for a, b in zip(merged[k], pairs)]
            elif k in merged:
                merged[(m, ch, len(pairs), len(merged))] = pairs
            else:
                merged[k] = pairs
        lines = [[k[0], k[1], v] for k, v in merged.items()]
    if shuffle:
        r.shuffle(lines)
    late = []
    if late_headers:
        # header lines may stand anywhere in the file: move some behind the data
        late = [h for h in out if h.startswith(("#WAV", "#TITLE", "#GENRE"))]
        out = [h for h in out if h not in late]
    out.append("")
    for sg in f.get("sigs", []):
        out.append(f"#{sg['m']:03}02:{sg['f1000'] / 1000:g}")
    for m, ch, pairs in lines:
        s = "".join(pairs)
        out.append(f"#{m:03}{ch}:{s.lower() if lower else s}")
    return out + late
